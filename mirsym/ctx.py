"""Path exploration by deterministic re-execution with one incremental z3 instance.

Every source of nondeterminism of a harness run (a switchInt on a symbolic value, an environment stub choosing
its answer, a library model that depends on a symbolic character) goes through Ctx.branch(cond).  The explorer
re-runs the harness once per path; the *trail* of decisions taken so far is replayed without solver queries and
the first new decision asks the solver which sides are feasible.  The solver's assertion stack always mirrors
the trail, so queries are incremental along the depth-first order.
"""
import os, subprocess, time
import z3

class Infeasible(Exception):
    """path condition became unsatisfiable (assume failed) - the path does not exist"""
class Inconclusive(Exception):
    """solver returned unknown / budget exhausted: never reported as success or as violation"""
class Cutoff(Exception):
    """prefix enumeration reached the split depth"""

class Entry:
    __slots__ = ('cond', 'choice', 'alt', 'alt_model', 'pushed', 'kind', 'forked')
    def __init__(self, cond, choice, alt, alt_model, pushed, kind='br'):
        self.cond = cond; self.choice = choice; self.alt = alt; self.alt_model = alt_model
        self.pushed = pushed; self.kind = kind; self.forked = alt or kind == 'forced'

class Ctx:
    def __init__(self, timeout_ms=20000, seed=0):
        self.solver = z3.Solver()
        self.solver.set('timeout', timeout_ms)
        self.trail = []
        self.pos = 0
        self.model = None
        self.nq = 0            # solver queries discharged
        self.tq = 0.0          # solver time
        self.npaths = 0
        self.forced_prefix = None   # list of bools when exploring a sub-tree
        self.split_depth = None     # when enumerating prefixes
        self.inputs = []       # (name, z3 var, kind) registered per path for model extraction
        self._vars = {}
        self.assert_queries = 0
        self.decisions_on_path = 0
        self.nfork = 0
        # second-solver cross-check of z3's UNSAT answers (the answers that cannot be validated natively):
        # every VERIF_XCHECK-th `unsat` at a decision is re-decided by cvc5 on the SMT-LIB dump of the same query
        self.xcheck_every = int(os.environ.get('VERIF_XCHECK', '0') or 0)
        self.n_unsat = 0; self.xc_agree = 0; self.xc_unknown = 0

    def _xcheck_unsat(self, other):
        self.n_unsat += 1
        if not self.xcheck_every or self.n_unsat % self.xcheck_every: return
        s2 = z3.Solver(); s2.add(self.solver.assertions()); s2.add(other)
        text = '(set-logic ALL)\n' + s2.to_smt2()
        for op in ('bvudiv', 'bvurem', 'bvsdiv', 'bvsrem', 'bvsmod'): text = text.replace(op + '_i', op)     # z3-internal names of the same operators
        try:
            r = subprocess.run(['cvc5', '--lang', 'smt2', '--tlimit=15000'], input=text.encode(), stdout=subprocess.PIPE, stderr=subprocess.PIPE, timeout=30)
            out = r.stdout.decode('utf-8', 'replace')
        except (subprocess.TimeoutExpired, OSError):
            out = 'unknown'
        first = out.strip().split('\n')[0] if out.strip() else 'unknown'
        if '(error' in out: first = 'unknown'
        if first == 'unsat': self.xc_agree += 1
        elif first == 'sat': raise Inconclusive('solver disagreement: z3 says unsat, cvc5 says sat')
        else:
            self.xc_unknown += 1
            if self.xc_unknown == 1:
                try:
                    d = os.path.join(os.path.dirname(os.path.dirname(os.path.abspath(__file__))), 'scratch'); os.makedirs(d, exist_ok=True)
                    open(os.path.join(d, 'xcheck-unknown-%d.txt' % os.getpid()), 'w').write(out[:2000] + '\n----\n' + text[-3000:])
                except OSError: pass

    # ---- variables (names are deterministic, so re-execution rebuilds identical terms) -------
    def bv(self, name, bits):
        v = self._vars.get(name)
        if v is None:
            v = z3.BitVec(name, bits); self._vars[name] = v
        return v
    def boolvar(self, name):
        v = self._vars.get(name)
        if v is None:
            v = z3.Bool(name); self._vars[name] = v
        return v

    # ---- solver access ---------------------------------------------------------------------
    def _check(self, *extra):
        self.nq += 1
        t = time.time()
        r = self.solver.check(*extra)
        self.tq += time.time() - t
        if r == z3.unknown:
            raise Inconclusive('solver returned unknown: ' + self.solver.reason_unknown())
        return r

    def _eval(self, cond):
        m = self.model
        if m is None:
            return None
        v = m.eval(cond, model_completion=True)
        if z3.is_true(v): return True
        if z3.is_false(v): return False
        return None

    def _ensure_model(self):
        if self.model is None:
            if self._check() != z3.sat:
                raise Infeasible()
            self.model = self.solver.model()

    # ---- the forking primitive ---------------------------------------------------------------
    def branch(self, cond):
        if cond is True or cond is False:
            return cond
        if z3.is_true(cond): return True
        if z3.is_false(cond): return False
        pos = self.pos
        if pos < len(self.trail):
            e = self.trail[pos]; self.pos = pos + 1
            if e.forked: self.nfork += 1
            return e.choice
        self.decisions_on_path += 1
        fp = self.forced_prefix
        if fp is not None and pos < len(fp):
            choice = fp[pos][1]
            self.solver.push(); self.solver.add(cond if choice else z3.Not(cond))
            e = Entry(cond, choice, False, None, True, 'forced')
            e.forked = bool(fp[pos][2]) if len(fp[pos]) > 2 else True
            self.trail.append(e)
            if e.forked: self.nfork += 1
            self.pos = pos + 1
            self.model = None
            return choice
        if self.split_depth is not None and self.nfork >= self.split_depth:
            raise Cutoff()
        self._ensure_model()
        v = self._eval(cond)
        if v is None:
            # model does not decide (should not happen with completion); ask the solver
            v = self._check(cond) == z3.sat
            if v: self.model = self.solver.model()
        other = z3.Not(cond) if v else cond
        r = self._check(other)
        if r == z3.sat:
            am = self.solver.model()
            self.solver.push(); self.solver.add(cond if v else z3.Not(cond))
            self.trail.append(Entry(cond, v, True, am, True))
            self.nfork += 1
        else:
            self._xcheck_unsat(other)
            self.trail.append(Entry(cond, v, False, None, False))
        self.pos = pos + 1
        return v

    def assume(self, cond):
        """constrain the path; raises Infeasible when the path condition becomes unsatisfiable"""
        if cond is True: return
        if cond is False: raise Infeasible()
        pos = self.pos
        if pos < len(self.trail):
            self.pos = pos + 1
            return
        self.solver.push(); self.solver.add(cond)
        self.trail.append(Entry(cond, True, False, None, True, 'assume'))
        self.pos = pos + 1
        if self.model is not None and self._eval(cond) is True:
            return
        self.model = None
        if self._check() != z3.sat:
            raise Infeasible()
        self.model = self.solver.model()

    def violates(self, cond):
        """is there an input on this path with cond false?  returns a model or None.  (deciding query)"""
        if cond is True: return None
        self.assert_queries += 1
        if cond is False:
            self._ensure_model()
            return self.model
        self._ensure_model()
        if self._eval(cond) is False:
            return self.model
        if self._check(z3.Not(cond)) == z3.sat:
            return self.solver.model()
        return None

    def must(self, cond):
        """pc entails cond?"""
        return self.violates(cond) is None

    def values_upto(self, expr, limit):
        """the feasible values of a bit-vector term on this path if there are at most `limit`, else None"""
        # the answer is recorded in the trail: during re-execution the solver already holds the constraints of
        # later decisions, so asking it again would give a different (smaller) answer
        pos = self.pos
        if pos < len(self.trail):
            e = self.trail[pos]; self.pos = pos + 1
            return e.cond
        fp = self.forced_prefix
        if fp is not None and pos < len(fp):
            vals = fp[pos][1]
            self.trail.append(Entry(vals, True, False, None, False, 'vals'))
            self.pos = pos + 1
            return vals
        self._ensure_model()
        vals = []
        self.solver.push()
        try:
            m = self.model
            while True:
                v = m.eval(expr, model_completion=True)
                vals.append(v.as_long())
                if len(vals) > limit: vals = None; break
                self.solver.add(expr != v)
                if self._check() != z3.sat: break
                m = self.solver.model()
        finally:
            self.solver.pop()
        self.trail.append(Entry(vals, True, False, None, False, 'vals'))
        self.pos = pos + 1
        return vals

    def feasible(self, cond):
        if cond is True: return True
        if cond is False: return False
        self._ensure_model()
        if self._eval(cond) is True: return True
        return self._check(cond) == z3.sat

    # ---- path bookkeeping --------------------------------------------------------------------
    def begin_path(self):
        self.pos = 0
        self.nfork = 0
        self.inputs = []
        self.decisions_on_path = 0

    def current_model(self):
        self._ensure_model()
        return self.model

    def backtrack(self):
        """move to the next unexplored alternative; False when the tree is exhausted"""
        tr = self.trail
        while tr:
            e = tr[-1]
            if e.alt:
                # flip
                self.solver.pop()
                self.solver.push()
                e.choice = not e.choice
                self.solver.add(e.cond if e.choice else z3.Not(e.cond))
                e.alt = False
                self.model = e.alt_model
                e.alt_model = None
                return True
            if e.pushed:
                self.solver.pop()
            tr.pop()
        self.model = None
        return False

    def decisions(self):
        return [e.choice for e in self.trail if e.kind not in ('assume', 'vals')]

    def trail_signature(self):
        return [(e.kind, e.cond if e.kind == 'vals' else e.choice, bool(e.forked)) for e in self.trail]
