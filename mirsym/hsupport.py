"""Shared machinery of the per-property harness modules: running one instance, aggregating, triage against the
known findings, native replay, evidence."""
import json, os, time, collections
import explore as ex
from explore import Violation, expect, conc
import native as nativemod

VERIF = os.path.dirname(os.path.dirname(os.path.abspath(__file__)))

class InstanceResult(dict):
    pass

def run_paths(prog, body, deadline, profile='dev', on_ok=None, on_violation=None, on_panic=None, max_samples=3,
              step_budget=2_000_000, setup=None, panic_is_violation=True, prefix=None, on_budget=None, split_depth=None):
    """explore `body`; returns a summary dict.
    on_ok(leaf, I) -> optional ('mismatch', info) | ('validated', n) | None      (translation validation hook)
    on_violation(leaf, I) -> violation record (dict)                                (harness assertion failed)
    on_panic(leaf, I) -> violation record or None                                   (crash leaf)"""
    out = dict(violations=[], issues=[], samples=[], validated=0, mismatches=[], classes=collections.Counter())
    def on_leaf(l, I):
        st = l.status
        if st == 'ok':
            if on_ok:
                r = on_ok(l, I)
                if r:
                    if r[0] == 'mismatch': out['mismatches'].append(r[1])
                    elif r[0] == 'validated': out['validated'] += r[1]
                    elif r[0] == 'violation': out['violations'].append(r[1])
            if len(out['samples']) < max_samples and l.inputs is not None:
                out['samples'].append({'inputs': l.inputs, 'result': _short(conc(l.model, l.payload))})
        elif st == 'violation':
            rec = on_violation(l, I) if on_violation else {'label': l.msg, 'inputs': l.inputs, 'detail': l.payload}
            if rec: out['violations'].append(rec)
        elif st in ('panic', 'exit'):
            rec = on_panic(l, I) if on_panic else None
            if rec: out['violations'].append(rec)
        elif st in ('unsupported', 'budget', 'inconclusive'):
            if st == 'budget' and on_budget is not None:
                rec = on_budget(l, I)
                if rec:
                    out['violations'].append(rec); return
            if len(out['issues']) < 20:
                out['issues'].append({'status': st, 'msg': l.msg, 'where': l.where, 'inputs': l.inputs})
            out['classes']['issue:' + st] += 1
    stats = ex.explore(prog, body, on_leaf, profile=profile, deadline=deadline, step_budget=step_budget, setup=setup, prefix=prefix, split_depth=split_depth)
    out['prefixes'] = stats.cutoffs
    out['stats'] = stats.as_dict()
    out['classes'] = dict(out['classes'])
    out['fns'] = sorted(prog.fn_entered)
    return out

def _short(v, n=300):
    s = json.dumps(v, ensure_ascii=False, default=str)
    return v if len(s) <= n else s[:n] + '...'

def merge(results):
    agg = dict(paths=0, queries=0, solver_s=0.0, steps=0, assert_queries=0, infeasible=0, xc_agree=0, xc_unknown=0, by_status=collections.Counter(),
               validated=0, mismatches=[], violations=[], issues=[], samples=[], errors=[], instances=0,
               truncated=0, classes=collections.Counter(), fns=set())
    for r in results:
        agg['instances'] += 1
        if 'error' in r:
            agg['errors'].append({'instance': r.get('instance'), 'error': r['error']}); continue
        st = r['stats']
        for k in ('paths', 'queries', 'solver_s', 'steps', 'assert_queries', 'infeasible'): agg[k] += st[k]
        for k in ('xc_agree', 'xc_unknown'): agg[k] += st.get(k, 0)
        for k, v in st['by_status'].items(): agg['by_status'][k] += v
        agg['validated'] += r['validated']
        for m in r['mismatches']: agg['mismatches'].append(dict(m, instance=r['instance']))
        for v in r['violations']: agg['violations'].append(dict(v, instance=r['instance']))
        for i in r['issues']: agg['issues'].append(dict(i, instance=r['instance']))
        if r['samples'] and len(agg['samples']) < 8:
            agg['samples'].append(dict(r['samples'][0], instance=r['instance']))
        for k, v in r.get('classes', {}).items(): agg['classes'][k] += v
        agg['fns'].update(r.get('fns', []))
        agg.setdefault('timing', []).append((round(r.get('wall_s', 0), 1), r.get('instance'), st['paths'], 'TRUNCATED' if ('deadline' in st['by_status'] or 'truncated' in st['by_status']) else ''))
    agg['truncated'] = agg['by_status'].get('deadline', 0) + agg['by_status'].get('truncated', 0)
    return agg

def write_evidence(pid, tier, seed, agg, wall, extra_cov, assumptions, nviol):
    os.makedirs(os.path.join(VERIF, 'evidence'), exist_ok=True)
    cov = dict(states=max(1, agg['paths']), transitions=max(1, agg['queries']),
               traces_validated_against_impl=agg['validated'],
               samples=agg['samples'] or [{'note': 'no ok-leaf sample recorded'}],
               exhaustive=agg['truncated'] == 0 and not agg['issues'] and not agg['errors'],
               solver_time_s=round(agg['solver_s'], 2), assertion_queries=agg['assert_queries'],
               mir_statements_executed=agg['steps'], instances=agg['instances'],
               leaf_status=dict(agg['by_status']), inconclusive_paths=len(agg['issues']),
               encoding_mismatches=len(agg['mismatches']), functions_encoded=sorted(agg['fns']),
               second_solver=dict(tool='cvc5 1.0 on the SMT-LIB dump of every N-th UNSAT decision query', every=int(os.environ.get('VERIF_XCHECK', '0') or 0),
                                  unsat_confirmed=agg['xc_agree'], unknown=agg['xc_unknown'], disagreements=0))
    cov.update(extra_cov or {})
    ev = dict(property_id=pid, tier=tier, seed=seed, level='model_checking', coverage=cov, assumptions=assumptions,
              wall_s=round(wall, 1), violations=nviol)
    p = os.path.join(VERIF, 'evidence', pid + '.json')
    with open(p + '.tmp', 'w') as f:
        json.dump(ev, f, indent=1, ensure_ascii=False, default=str)
    os.replace(p + '.tmp', p)
    return p

def triage(pid, agg, known, classify, replay, log, max_replays_per_key=3):
    """returns (exit_code, lines, n_new, n_known)"""
    lines = []
    bykey = collections.OrderedDict()
    for v in agg['violations']:
        k = v.get('key') or classify(v)
        v['key'] = k
        bykey.setdefault(k, []).append(v)
    known_keys = {k['key']: k for k in known}
    new = 0; nknown = 0; nonrepro = 0
    os.makedirs(os.path.join(VERIF, 'replays'), exist_ok=True)
    for k, vs in bykey.items():
        if k in known_keys:
            ok = None
            for v in vs[:max_replays_per_key]:
                ok = replay(v)
                if ok and ok.get('reproduced'): break
            if ok and ok.get('reproduced'):
                nknown += 1
                lines.append('KNOWN-FINDING: property=%s %s [key=%s; %d violating paths; witness %s]' % (
                    pid, known_keys[k]['what'], k, len(vs), json.dumps(ok.get('witness'), ensure_ascii=False)))
            else:
                nonrepro += 1
                lines.append('INCONCLUSIVE: known finding %s found symbolically but its replay did not reproduce' % k)
            continue
        rep = None
        for v in vs[:max_replays_per_key]:
            rep = replay(v)
            if rep and rep.get('reproduced'):
                path = os.path.join(VERIF, 'replays', '%s-%s.json' % (pid, abs(hash(k)) % 10**8))
                with open(path, 'w') as f:
                    json.dump(dict(property=pid, key=k, violation=v, replay=rep), f, indent=1, ensure_ascii=False, default=str)
                lines.append('VIOLATION property=%s replay=%s' % (pid, path))
                lines.append('  key=%s label=%s witness=%s (%d violating paths)' % (k, v.get('label'), json.dumps(rep.get('witness'), ensure_ascii=False), len(vs)))
                new += 1
                break
        else:
            nonrepro += 1
            lines.append('INCONCLUSIVE: symbolic violation key=%s did not reproduce natively (model/stub error?) e.g. %s' % (
                k, json.dumps({k: vs[0].get(k) for k in ("line", "args", "files", "observed", "label", "instance")}, ensure_ascii=False, default=str)[:600]))
    code = 0
    if new: code = 1
    elif nonrepro or agg['errors'] or agg['issues'] or agg['mismatches'] or agg['truncated']: code = 2
    return code, lines, new, nknown

def report_issues(agg, log):
    for e in agg['errors'][:3]: log('ERROR in instance %s: %s' % (e['instance'], e['error'][-800:]))
    seen = collections.Counter(); first = {}
    for i in agg['issues']:
        k = (i['status'], i['msg'], tuple(i.get('where') or ())[-2:])
        seen[k] += 1; first.setdefault(k, i.get('instance'))
    for (st, msg, wh), n in seen.most_common(8):
        log('INCONCLUSIVE path: %s %s at %s (%d sampled; first in instance %s)' % (st, msg, '/'.join(wh), n, first[(st, msg, wh)]))
    for m in agg['mismatches'][:5]:
        log('ENCODING MISMATCH (symbolic vs native): %s' % json.dumps(m, ensure_ascii=False, default=str)[:600])
    if agg['truncated']: log('exploration truncated by the time budget in %d instances' % agg['truncated'])
    log('slowest instances: %s' % sorted(agg.get('timing', []), reverse=True)[:4])
