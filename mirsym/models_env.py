"""Environment stubs: process environment, file-system answers, process exit.  Each returns an arbitrary value
of its type chosen by the solver within the documented contract; the harness installs an Env describing which
part of the environment is fixed and which is symbolic.  All of them are listed in the evidence assumptions."""
import z3
from engine import (RString, RVec, Agg, Ref, Opaque, UNIT, NONE, SOME, OK, ERR, TUP, Unsupported, ProcessExit,
                    is_sym, lit, str_eq)
from models import ListIter, STOP, truthy

class Env:
    """process environment + file system oracle of one path"""
    def __init__(self, I, vars=None, unknown='unset'):
        self.I = I
        self.vars = []          # [name tuple, value tuple|None]
        for k, v in (vars or {}).items():
            self.vars.append([lit(k) if isinstance(k, str) else tuple(k), (lit(v) if isinstance(v, str) else (None if v is None else tuple(v)))])
        self.unknown = unknown  # 'unset' | 'fresh'
        self.fresh_len = 1
        self.nfresh = 0
        self.lookups = []       # names looked up (for oracles)
        self.glob_handler = None
        self.globs = []
        self.pid = None
        self.fs = {}            # path text -> dict(kind=...)
        self.cwd = lit('/cwd')
        self.exists_handler = None
    def lookup(self, name):
        I = self.I
        name = tuple(name)
        self.lookups.append(name)
        for it in self.vars:
            if truthy(I, str_eq(it[0], name)):
                return it[1]
        if self.unknown == 'fresh':
            self.nfresh += 1
            val = tuple(I.sym_char('envv%d_%d' % (self.nfresh, k)) for k in range(self.fresh_len))
            self.vars.append([name, val])
            return val
        return None
    def set(self, name, value):
        I = self.I
        name = tuple(name); value = tuple(value)
        for it in self.vars:
            if truthy(I, str_eq(it[0], name)):
                it[1] = value; return
        self.vars.append([name, value])
    def remove(self, name):
        I = self.I
        name = tuple(name)
        for it in self.vars:
            if truthy(I, str_eq(it[0], name)):
                it[1] = None; return
    def getpid(self):
        if self.pid is None:
            self.pid = self.I.sym_int('shellpid', 32, 1, 4194304)
        return self.pid

def install(prog):
    M = prog.model
    def env(I):
        if I.env is None: I.env = Env(I)
        return I.env
    @M('var', 'env::var', 'std::env::var')
    def _(I, a, c):
        v = env(I).lookup(I.str_of(a[0]))
        return ERR(Opaque('VarError')) if v is None else OK(RString(v))
    @M('var_os', 'env::var_os')
    def _(I, a, c):
        v = env(I).lookup(I.str_of(a[0]))
        return NONE() if v is None else SOME(Opaque('OsString', v))
    @M('set_var', 'env::set_var')
    def _(I, a, c): env(I).set(I.str_of(a[0]), I.str_of(a[1])); return UNIT
    @M('remove_var', 'env::remove_var')
    def _(I, a, c): env(I).remove(I.str_of(a[0])); return UNIT
    @M('vars', 'env::vars')
    def _(I, a, c):
        return ListIter([TUP(RString(k), RString(v)) for k, v in env(I).vars if v is not None])
    @M('libc::getpid', 'getpid', 'tlog::getpid#x')
    def _(I, a, c): return env(I).getpid()
    @M('std::process::exit', 'process::exit')
    def _(I, a, c): raise ProcessExit(a[0])
    @M('glob::glob', 'glob')
    def _(I, a, c):
        e = env(I); pat = I.str_of(a[0])
        e.globs.append(pat)
        if e.glob_handler is None: raise Unsupported('glob stub not installed')
        r = e.glob_handler(I, pat)
        if r is None: return ERR(Opaque('PatternError'))
        return OK(ListIter([OK(Opaque('PathBuf', tuple(p))) for p in r]))
    @M('Path::new', 'PathBuf::from', '<PathBuf as From>::from', 'Path::to_path_buf', 'PathBuf::as_path', '<PathBuf as Deref>::deref',
       '<PathBuf as AsRef>::as_ref', '<String as AsRef>::as_ref#p', '<str as AsRef>::as_ref#p', '<Path as AsRef>::as_ref')
    def _(I, a, c):
        d = I.deref(a[0])
        if isinstance(d, Opaque): return Opaque('PathBuf', d.data)
        return Opaque('PathBuf', I.str_of(d))
    @M('PathBuf::new')
    def _(I, a, c): return Opaque('PathBuf', ())
    @M('Path::to_string_lossy')
    def _(I, a, c): return Agg('Cow', [tuple(I.deref(a[0]).data)])
    @M('Path::to_str')
    def _(I, a, c): return SOME(tuple(I.deref(a[0]).data))
    @M('Path::display')
    def _(I, a, c): return Opaque('PathDisplay', tuple(I.deref(a[0]).data))
    @M('OsString::into_string')
    def _(I, a, c): return OK(RString(I.deref(a[0]).data))
    @M('Path::exists', 'Path::is_dir', 'Path::is_file')
    def _(I, a, c):
        e = env(I)
        if e.exists_handler is None: raise Unsupported('fs stub not installed: ' + c)
        return e.exists_handler(I, tuple(I.deref(a[0]).data), c.split('::')[-1])
    @M('errno::errno', 'errno')
    def _(I, a, c): return Agg('Errno', [0])
    @M('set_errno', 'errno::set_errno')
    def _(I, a, c): return UNIT
    @M('std::io::Error::last_os_error', 'io::Error::last_os_error')
    def _(I, a, c): return Opaque('io::Error')
    @M('zeroed', 'mem::zeroed', 'std::mem::zeroed')
    def _(I, a, c): return Opaque('zeroed')
    @M('libc::signal', 'signal')
    def _(I, a, c): return 0
    # signal masks: a sigset_t is an Opaque whose data is a python set; the calling process' mask is I.sigmask
    def _sigset(I, ptr):
        o = I.deref(ptr)
        if not isinstance(o, Opaque): raise Unsupported('sigset_t operand %r' % (o,))
        if not isinstance(o.data, set): o.data = set()
        return o
    def _isnull(I, ptr): return isinstance(ptr, Opaque) and ptr.what == 'null'
    @M('null_mut', 'ptr::null_mut', 'std::ptr::null_mut', 'null', 'ptr::null', 'std::ptr::null')
    def _(I, a, c): return Opaque('null')
    @M('sigemptyset', 'libc::sigemptyset')
    def _(I, a, c):
        _sigset(I, a[0]).data = set(); return 0
    @M('sigaddset', 'libc::sigaddset')
    def _(I, a, c):
        _sigset(I, a[0]).data.add(I.concretize(a[1])); return 0
    @M('libc::pthread_sigmask', 'pthread_sigmask', 'libc::sigprocmask', 'sigprocmask')
    def _(I, a, c):
        cur = set(getattr(I, 'sigmask', ()))
        how = I.concretize(a[0])
        if not _isnull(I, a[2]): _sigset(I, a[2]).data = set(cur)
        if not _isnull(I, a[1]):
            new = set(_sigset(I, a[1]).data)
            if how == 0: cur |= new
            elif how == 1: cur -= new
            elif how == 2: cur = new
            else: return -1
        I.sigmask = frozenset(cur)
        return 0
