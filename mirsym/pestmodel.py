"""Model of the `pest` runtime for the two grammars of cicada.

The generated parser code (derive output) and pest's runtime are not executed; instead the grammar FILE named by the
`#[grammar = ".."]` attribute in /repo's current source is read and interpreted by the PEG evaluator below (pest's
documented semantics: ordered choice, implicit WHITESPACE between sequence elements and repetitions outside atomic
rules, silent `_`, atomic `@`, compound-atomic `$`, lookahead `!` `&`, case-insensitive `^"x"`, built-in rules).
This is trusted base; every parse the verdict rests on is cross-checked against the real parser through the native
replay.  Text is concrete-shape / symbolic-content: every character test forks via ctx.branch."""
import os, re
import z3
from engine import (RString, RVec, Agg, Ref, Opaque, UNIT, NONE, SOME, OK, ERR, TUP, Unsupported, RustPanic, is_sym, lit,
                    ch_eq, ch_in_range, str_eq, b_and, b_or, DISCR)

# ---------------- grammar file parser ------------------------------------------------------------------
class G:
    def __init__(self, text):
        self.rules = {}      # name -> (modifier, expr)
        self.order = []
        self._parse(text)
    def _parse(self, text):
        text = re.sub(r'//[^\n]*', '', text)
        i = 0; n = len(text)
        self.t = text
        while True:
            m = re.compile(r'\s*([A-Za-z_][A-Za-z0-9_]*)\s*=\s*([_@$!]?)\s*\{').match(text, i)
            if not m:
                if text[i:].strip(): raise Unsupported('pest grammar syntax near ' + text[i:i + 40])
                break
            name, mod = m.group(1), m.group(2)
            self.i = m.end()
            e = self._choice()
            self._ws()
            if text[self.i] != '}': raise Unsupported('pest grammar: expected } in rule ' + name)
            i = self.i + 1
            self.rules[name] = (mod, e); self.order.append(name)
    def _ws(self):
        while self.i < len(self.t) and self.t[self.i].isspace(): self.i += 1
    def _choice(self):
        alts = [self._seq()]
        while True:
            self._ws()
            if self.t[self.i] == '|':
                self.i += 1; alts.append(self._seq())
            else: break
        return alts[0] if len(alts) == 1 else ('choice', alts)
    def _seq(self):
        items = [self._prefix()]
        while True:
            self._ws()
            if self.t[self.i] == '~':
                self.i += 1; items.append(self._prefix())
            else: break
        return items[0] if len(items) == 1 else ('seq', items)
    def _prefix(self):
        self._ws()
        c = self.t[self.i]
        if c == '!': self.i += 1; return ('not', self._prefix())
        if c == '&': self.i += 1; return ('and', self._prefix())
        return self._postfix()
    def _postfix(self):
        e = self._atom()
        while True:
            self._ws()
            c = self.t[self.i]
            if c == '*': self.i += 1; e = ('rep', e, 0, None)
            elif c == '+': self.i += 1; e = ('rep', e, 1, None)
            elif c == '?': self.i += 1; e = ('opt', e)
            elif c == '{':
                m = re.compile(r'\{\s*(\d*)\s*(,?)\s*(\d*)\s*\}').match(self.t, self.i)
                if not m: break
                lo = int(m.group(1) or 0); hi = int(m.group(3)) if m.group(3) else (None if m.group(2) else lo)
                self.i = m.end(); e = ('rep', e, lo, hi)
            else: break
        return e
    def _atom(self):
        self._ws()
        t = self.t; c = t[self.i]
        if c == '(':
            self.i += 1; e = self._choice(); self._ws()
            if t[self.i] != ')': raise Unsupported('pest grammar: expected )')
            self.i += 1; return e
        if c == '^':
            self.i += 1; s = self._string(); return ('istr', s)
        if c == '"':
            return ('str', self._string())
        if c == "'":
            m = re.compile(r"'(\\.|[^\\'])'\s*\.\.\s*'(\\.|[^\\'])'").match(t, self.i)
            if not m: raise Unsupported('pest grammar: char range')
            self.i = m.end()
            return ('range', ord(_unesc(m.group(1))), ord(_unesc(m.group(2))))
        m = re.compile(r'[A-Za-z_][A-Za-z0-9_]*').match(t, self.i)
        if not m: raise Unsupported('pest grammar near ' + t[self.i:self.i + 30])
        self.i = m.end()
        if m.group(0) in ('PUSH', 'POP', 'PEEK', 'DROP', 'PEEK_ALL', 'POP_ALL'): raise Unsupported('pest stack ops')
        return ('ref', m.group(0))
    def _string(self):
        t = self.t
        assert t[self.i] == '"'
        j = self.i + 1; out = []
        while t[j] != '"':
            if t[j] == '\\':
                out.append(_unesc(t[j:j + 2])); j += 2
            else: out.append(t[j]); j += 1
        self.i = j + 1
        return ''.join(out)

def _unesc(s):
    if s.startswith('\\'):
        return {'n': '\n', 't': '\t', 'r': '\r', '0': '\0', '\\': '\\', '"': '"', "'": "'"}.get(s[1], s[1])
    return s

BUILTIN = {'ANY', 'SOI', 'EOI', 'NEWLINE', 'ASCII_DIGIT', 'ASCII_ALPHA', 'ASCII_ALPHANUMERIC', 'ASCII_ALPHA_LOWER', 'ASCII_ALPHA_UPPER',
           'ASCII_NONZERO_DIGIT', 'ASCII_HEX_DIGIT', 'ASCII'}

class Fail(Exception):
    pass

class Node:
    __slots__ = ('rule', 'start', 'end', 'children')
    def __init__(self, rule, start, end, children): self.rule = rule; self.start = start; self.end = end; self.children = children
    def __repr__(self): return '%s[%d:%d]%r' % (self.rule, self.start, self.end, self.children)

class Evaluator:
    def __init__(self, I, g, text):
        self.I = I; self.g = g; self.text = text; self.n = len(text)
        self.has_ws = 'WHITESPACE' in g.rules
        self.has_comment = 'COMMENT' in g.rules
        self.steps = 0
    def T(self, c):
        return self.I.ctx.branch(c) if is_sym(c) else bool(c)
    def skip(self, pos, atomic):
        if atomic or not (self.has_ws or self.has_comment): return pos
        while True:
            moved = False
            for nm in ('WHITESPACE', 'COMMENT'):
                if nm in self.g.rules:
                    r = self.try_(lambda: self.rule(nm, pos, True)) if False else None
                    try:
                        p2, _ = self.rule(nm, pos, True, silent_all=True)
                        if p2 > pos: pos = p2; moved = True
                    except Fail:
                        pass
            if not moved: return pos
    def rule(self, name, pos, atomic, silent_all=False):
        """-> (newpos, [nodes])"""
        self.I.steps += 5
        if name in BUILTIN and name not in self.g.rules:
            return self.builtin(name, pos)
        mod, e = self.g.rules[name]
        inner_atomic = atomic
        if mod in ('@', '$'): inner_atomic = True
        elif mod == '!': inner_atomic = False
        # tokens of rules called from inside an atomic (@) rule are not produced
        child_silent = silent_all or (mod == '@')
        p2, nodes = self.ev(e, pos, inner_atomic, child_silent)
        if mod == '_' or silent_all:
            return p2, nodes if not silent_all else []
        if mod == '@': nodes = []
        return p2, [Node(name, pos, p2, nodes)]
    def builtin(self, name, pos):
        t = self.text
        if name == 'SOI':
            if pos == 0: return pos, []
            raise Fail()
        if name == 'EOI':
            if pos == self.n: return pos, [Node('EOI', pos, pos, [])]
            raise Fail()
        if pos >= self.n: raise Fail()
        c = t[pos]
        if name == 'ANY': return pos + 1, []
        if name == 'NEWLINE':
            if self.T(ch_eq(c, 10)): return pos + 1, []
            if self.T(ch_eq(c, 13)):
                if pos + 1 < self.n and self.T(ch_eq(t[pos + 1], 10)): return pos + 2, []
                return pos + 1, []
            raise Fail()
        cond = {'ASCII_DIGIT': lambda: ch_in_range(c, 48, 57), 'ASCII_NONZERO_DIGIT': lambda: ch_in_range(c, 49, 57),
                'ASCII_ALPHA': lambda: b_or(ch_in_range(c, 65, 90), ch_in_range(c, 97, 122)),
                'ASCII_ALPHA_LOWER': lambda: ch_in_range(c, 97, 122), 'ASCII_ALPHA_UPPER': lambda: ch_in_range(c, 65, 90),
                'ASCII_ALPHANUMERIC': lambda: b_or(ch_in_range(c, 48, 57), ch_in_range(c, 65, 90), ch_in_range(c, 97, 122)),
                'ASCII_HEX_DIGIT': lambda: b_or(ch_in_range(c, 48, 57), ch_in_range(c, 65, 70), ch_in_range(c, 97, 102)),
                'ASCII': lambda: ch_in_range(c, 0, 127)}[name]()
        if self.T(cond): return pos + 1, []
        raise Fail()
    def ev(self, e, pos, atomic, silent):
        k = e[0]; t = self.text
        if k == 'str':
            s = e[1]
            if pos + len(s) > self.n: raise Fail()
            if self.T(str_eq(tuple(t[pos:pos + len(s)]), lit(s))): return pos + len(s), []
            raise Fail()
        if k == 'istr':
            s = e[1]
            if pos + len(s) > self.n: raise Fail()
            conds = []
            for ch, c in zip(s, t[pos:pos + len(s)]):
                lo, up = ord(ch.lower()), ord(ch.upper())
                conds.append(b_or(ch_eq(c, lo), ch_eq(c, up)))
            if self.T(b_and(*conds)): return pos + len(s), []
            raise Fail()
        if k == 'range':
            if pos < self.n and self.T(ch_in_range(t[pos], e[1], e[2])): return pos + 1, []
            raise Fail()
        if k == 'ref':
            p2, nodes = self.rule(e[1], pos, atomic, silent_all=silent)
            return p2, ([] if silent else nodes)
        if k == 'seq':
            nodes = []; p = pos
            for i, it in enumerate(e[1]):
                if i: p = self.skip(p, atomic)
                p, ns = self.ev(it, p, atomic, silent); nodes += ns
            return p, nodes
        if k == 'choice':
            for alt in e[1]:
                try: return self.ev(alt, pos, atomic, silent)
                except Fail: continue
            raise Fail()
        if k == 'opt':
            try: return self.ev(e[1], pos, atomic, silent)
            except Fail: return pos, []
        if k == 'rep':
            _, sub, lo, hi = e
            nodes = []; p = pos; cnt = 0
            while hi is None or cnt < hi:
                try:
                    q = self.skip(p, atomic) if cnt else p
                    q2, ns = self.ev(sub, q, atomic, silent)
                except Fail:
                    break
                if q2 == p and cnt >= lo: break      # no progress
                p = q2; nodes += ns; cnt += 1
                self.I.steps += 5
            if cnt < lo: raise Fail()
            return p, nodes
        if k == 'not':
            try: self.ev(e[1], pos, atomic, True)
            except Fail: return pos, []
            raise Fail()
        if k == 'and':
            self.ev(e[1], pos, atomic, True)
            return pos, []
        raise Unsupported('pest expr ' + k)

# ---------------- runtime objects -----------------------------------------------------------------------
class PairObj:
    __slots__ = ('node', 'text', 'ns')
    def __init__(self, node, text, ns): self.node = node; self.text = text; self.ns = ns
class PairsObj:
    __slots__ = ('nodes', 'i', 'text', 'ns')
    def __init__(self, nodes, text, ns): self.nodes = list(nodes); self.i = 0; self.text = text; self.ns = ns
    def next(self, I):
        from models import STOP
        if self.i >= len(self.nodes): return STOP
        nd = self.nodes[self.i]; self.i += 1
        return Opaque('Pair', PairObj(nd, self.text, self.ns))
    def clone(self):
        p = PairsObj(self.nodes, self.text, self.ns); p.i = self.i; return p

_grammars = {}
def grammar_for(prog, struct_name):
    """(grammar, namespace) of the #[derive(Parser)] struct"""
    key = (id(prog), struct_name)
    if key in _grammars: return _grammars[key]
    src = os.path.join(prog.repo, 'src')
    for root, _, files in os.walk(src):
        for fn in files:
            if not fn.endswith('.rs'): continue
            txt = open(os.path.join(root, fn), encoding='utf-8', errors='replace').read()
            m = re.search(r'#\[grammar\s*=\s*"([^"]+)"\]\s*(?:pub\s+)?struct\s+%s\b' % re.escape(struct_name), txt)
            if m:
                gp = os.path.join(src, m.group(1))
                g = G(open(gp).read())
                ns = os.path.relpath(os.path.join(root, fn), src)[:-3].replace('/mod', '').replace('/', '::')
                _grammars[key] = (g, ns.split('::')[-1])
                return _grammars[key]
    raise Unsupported('no #[grammar] for ' + struct_name)

def rule_tag(ns, name): return '%s::Rule::%s' % (ns, name)

def install(prog):
    M = prog.model
    from models import STOP, ListIter
    # discriminants of the derived Rule enums: read from the MIR of their Debug impl (name -> discriminant)
    for name in list(prog.module.raw):
        r = prog.module.raw[name]
        if r[0] != 'fn' or not name.endswith('::fmt') or ': &' not in r[1]: continue
        a1 = r[1].split(',')[0]
        m = re.search(r'_1: &(\w+)::Rule$', a1.strip())
        if not m: continue
        ns = m.group(1)
        body = r[3]
        sw = re.search(r'switchInt\([^)]*\) -> \[([^\]]*)\]', body)
        if not sw: continue
        targets = dict((int(b[2:]), int(v)) for v, b in (x.strip().split(': ') for x in sw.group(1).split(',') if not x.strip().startswith('otherwise')))
        for bm in re.finditer(r'bb(\d+): \{\s*_\d+ = const "(\w+)";', body):
            bb = int(bm.group(1))
            if bb in targets:
                DISCR[rule_tag(ns, bm.group(2))] = targets[bb]
    def const_model(I, fn, s):
        m = re.match(r'^(?:\w+::)*(\w+)::Rule::(\w+)$', s)
        if m and rule_tag(m.group(1), m.group(2)) in DISCR: return Agg(rule_tag(m.group(1), m.group(2)), [])
        m = re.match(r'^(?:pest::pratt_parser::)?Assoc::(Left|Right)$', s)
        if m: return Agg(m.group(1), [])
        return NotImplemented
    prog.const_models.append(const_model)
    orig_make_adt = prog.make_adt
    def make_adt(I, path, fields, names):
        m = re.match(r'^(?:\w+::)*(\w+)::Rule::(\w+)$', path)
        if m and not fields and rule_tag(m.group(1), m.group(2)) in DISCR: return Agg(rule_tag(m.group(1), m.group(2)), [])
        return orig_make_adt(I, path, fields, names)
    prog.make_adt = make_adt

    def parse_model(I, a, c):
        m = re.match(r'^<(\w+) as (?:pest::)?Parser<([\w:]+)>>::parse$', c.strip())
        if not m: raise Unsupported('call ' + c)
        g, ns = grammar_for(I.prog, m.group(1))
        rule = I.deref(a[0]).tag.split('::')[-1]
        text = I.str_of(a[1])
        ev = Evaluator(I, g, text)
        try:
            p, nodes = ev.rule(rule, 0, False)
        except Fail:
            return ERR(Opaque('pest::Error'))
        except RecursionError:
            raise Unsupported('pest recursion')
        return OK(Opaque('Pairs', PairsObj(nodes, text, ns)))
    prog.forced_models.append((re.compile(r'^<\w+ as Parser>::parse$'), parse_model))

    @M('<Pairs as Iterator>::next')
    def _(I, a, c):
        v = I.deref(a[0]).data.next(I)
        return NONE() if v is STOP else SOME(v)
    @M('<Pairs as IntoIterator>::into_iter', '<Pairs as Clone>::clone#x')
    def _(I, a, c): return a[0]
    @M('<Pairs as Clone>::clone')
    def _(I, a, c): return Opaque('Pairs', I.deref(a[0]).data.clone())
    @M('<Pairs as Iterator>::collect')
    def _(I, a, c):
        ps = I.deref(a[0]).data; out = []
        while True:
            v = ps.next(I)
            if v is STOP: break
            out.append(v)
        return RVec(out)
    @M('<Pairs as Iterator>::peek', 'Pairs::peek')
    def _(I, a, c):
        ps = I.deref(a[0]).data
        if ps.i >= len(ps.nodes): return NONE()
        return SOME(Opaque('Pair', PairObj(ps.nodes[ps.i], ps.text, ps.ns)))
    @M('Pair::as_rule')
    def _(I, a, c):
        p = I.deref(a[0]).data; return Agg(rule_tag(p.ns, p.node.rule), [])
    @M('Pair::as_str')
    def _(I, a, c):
        p = I.deref(a[0]).data; return tuple(p.text[p.node.start:p.node.end])
    @M('Pair::into_inner')
    def _(I, a, c):
        p = I.deref(a[0]).data; return Opaque('Pairs', PairsObj(p.node.children, p.text, p.ns))
    @M('<Pair as Clone>::clone')
    def _(I, a, c):
        p = I.deref(a[0]).data; return Opaque('Pair', PairObj(p.node, p.text, p.ns))

    # ---- Pratt parser: the table comes from the MIR of the lazy_static initialiser, the algorithm is pest's
    @M('PrattParser::new')
    def _(I, a, c): return Opaque('PrattParser', {'prec': 0, 'ops': {}})
    @M('Op::infix', 'pest::pratt_parser::Op::infix')
    def _(I, a, c): return Opaque('Op', [('infix', I.deref(a[0]).tag, I.deref(a[1]).tag)])
    @M('Op::prefix')
    def _(I, a, c): return Opaque('Op', [('prefix', I.deref(a[0]).tag, None)])
    @M('Op::postfix')
    def _(I, a, c): return Opaque('Op', [('postfix', I.deref(a[0]).tag, None)])
    @M('<Op as BitOr>::bitor')
    def _(I, a, c): return Opaque('Op', I.deref(a[0]).data + I.deref(a[1]).data)
    @M('PrattParser::op')
    def _(I, a, c):
        pp = I.deref(a[0]); d = pp.data
        d['prec'] += 10
        for kind, rule, assoc in I.deref(a[1]).data: d['ops'][rule] = (kind, assoc, d['prec'])
        return pp
    def lazy_pratt(I):
        raise Unsupported('lazy pratt')
    @M('PrattParser::map_primary')
    def _(I, a, c): return Opaque('PrattMap', {'pratt': I.deref(a[0]).data, 'primary': a[1], 'infix': None, 'prefix': None, 'postfix': None})
    @M('PrattParserMap::map_infix')
    def _(I, a, c):
        m = I.deref(a[0]); m.data['infix'] = a[1]; return m
    @M('PrattParserMap::map_prefix')
    def _(I, a, c):
        m = I.deref(a[0]); m.data['prefix'] = a[1]; return m
    @M('PrattParserMap::map_postfix')
    def _(I, a, c):
        m = I.deref(a[0]); m.data['postfix'] = a[1]; return m
    @M('PrattParserMap::parse')
    def _(I, a, c):
        mp = I.deref(a[0]).data; ops = mp['pratt']['ops']
        ps = I.deref(a[1]).data
        def peek():
            return ps.nodes[ps.i] if ps.i < len(ps.nodes) else None
        def nxt():
            v = ps.next(I)
            if v is STOP: I.panic('Pratt parsing expects non-empty Pairs')
            return v
        def lbp():
            nd = peek()
            if nd is None: return 0
            o = ops.get(rule_tag(ps.ns, nd.rule))
            if o is None: I.panic('Expected operator, found ' + nd.rule)
            return o[2]
        def nud():
            pair = nxt()
            o = ops.get(rule_tag(ps.ns, pair.data.node.rule))
            if o is None: return I.call_closure(mp['primary'], [pair])
            if o[0] == 'prefix':
                rhs = expr(o[2] - 1)
                return I.call_closure(mp['prefix'], [pair, rhs])
            I.panic('Expected prefix or primary expression')
        def led(lhs):
            pair = nxt()
            o = ops.get(rule_tag(ps.ns, pair.data.node.rule))
            if o and o[0] == 'infix':
                rhs = expr(o[2] if o[1] == 'Left' else o[2] - 1)
                return I.call_closure(mp['infix'], [lhs, pair, rhs])
            if o and o[0] == 'postfix': return I.call_closure(mp['postfix'], [lhs, pair])
            I.panic('Expected postfix or infix expression')
        def expr(rbp):
            lhs = nud()
            while rbp < lbp(): lhs = led(lhs)
            return lhs
        return expr(0)
