"""regex crate API over rx.py"""
import z3
from engine import (RString, RVec, Agg, Ref, Opaque, UNIT, NONE, SOME, OK, ERR, TUP, Unsupported, StepBudget, is_sym, lit)
import rx
from models import ListIter, STOP

class Rx:
    __slots__ = ('pat', 'ast', 'ng', 'names')
    def __init__(self, pat):
        self.pat = pat
        self.ast, self.ng, self.names = rx.parse(pat)
    def __repr__(self): return 'Regex(%r)' % self.pat

TEXT_LIMIT = 64
def guard_len(I, text):
    # regex work is not counted in MIR steps: a text that keeps growing in a rewrite loop is a budget matter
    if len(text) > TEXT_LIMIT:
        raise StepBudget('text grew beyond %d characters in a regex rewrite' % TEXT_LIMIT)
    I.steps += 20 * len(text)
    return text

def pat_text(I, v):
    s = I.str_of(v)
    if any(is_sym(c) for c in s): raise Unsupported('symbolic regex pattern')
    return ''.join(chr(c) for c in s)

def mk_caps(text, m, r):
    s, e, caps = m
    caps = dict(caps); caps[0] = (s, e)
    return Opaque('Captures', {'text': text, 'caps': caps, 're': r})

def install(prog):
    M = prog.model
    @M('regex::Regex::new', 'Regex::new')
    def _(I, a, c):
        p = pat_text(I, a[0])
        try:
            return OK(Opaque('Regex', Rx(p)))
        except rx.RxErr as e:
            if str(e).startswith(('flag', 'escape', 'posix', 'class escape')):
                raise Unsupported('regex feature: %s in %r' % (e, p))
            return ERR(Opaque('regex::Error'))
    @M('regex::RegexBuilder::new', 'RegexBuilder::new')
    def _(I, a, c): return Opaque('RegexBuilder', {'pat': pat_text(I, a[0]), 'm': False})
    @M('regex::RegexBuilder::multi_line', 'RegexBuilder::multi_line')
    def _(I, a, c):
        I.deref(a[0]).data['m'] = bool(a[1]); return a[0]
    @M('regex::RegexBuilder::build', 'RegexBuilder::build')
    def _(I, a, c):
        d = I.deref(a[0]).data
        p = ('(?m)' if d['m'] else '') + d['pat']
        return OK(Opaque('Regex', Rx(p)))
    @M('regex::Regex::is_match', 'Regex::is_match')
    def _(I, a, c):
        r = I.deref(a[0]).data
        return rx.is_match(r.pat, guard_len(I, I.str_of(a[1])))
    @M('regex::Regex::captures', 'Regex::captures')
    def _(I, a, c):
        r = I.deref(a[0]).data; text = I.str_of(a[1])
        m = rx.first_match(I.ctx, r.pat, text)
        return NONE() if m is None else SOME(mk_caps(text, m, r))
    @M('regex::Regex::find', 'Regex::find')
    def _(I, a, c):
        r = I.deref(a[0]).data; text = I.str_of(a[1])
        m = rx.first_match(I.ctx, r.pat, text)
        return NONE() if m is None else SOME(Opaque('Match', (text, m[0], m[1])))
    @M('regex::Regex::captures_iter', 'Regex::captures_iter')
    def _(I, a, c):
        r = I.deref(a[0]).data; text = I.str_of(a[1])
        return ListIter([mk_caps(text, m, r) for m in rx.all_matches(I.ctx, r.pat, text)])
    @M('regex::Regex::find_iter', 'Regex::find_iter')
    def _(I, a, c):
        r = I.deref(a[0]).data; text = I.str_of(a[1])
        return ListIter([Opaque('Match', (text, m[0], m[1])) for m in rx.all_matches(I.ctx, r.pat, text)])
    @M('<Captures as Index>::index')
    def _(I, a, c):
        d = I.deref(a[0]).data; idx = I.deref(a[1])
        if isinstance(idx, (tuple, RString)):
            nm = ''.join(chr(x) for x in I.str_of(idx))
            gi = d['re'].names.get(nm)
        else: gi = idx
        sp = d['caps'].get(gi) if gi is not None else None
        if sp is None: I.panic('no group at index')
        return d['text'][sp[0]:sp[1]]
    @M('regex::Captures::get', 'Captures::get')
    def _(I, a, c):
        d = I.deref(a[0]).data; gi = I.concretize(a[1])
        sp = d['caps'].get(gi)
        return NONE() if sp is None else SOME(Opaque('Match', (d['text'], sp[0], sp[1])))
    @M('regex::Captures::name', 'Captures::name')
    def _(I, a, c):
        d = I.deref(a[0]).data
        gi = d['re'].names.get(''.join(chr(x) for x in I.str_of(a[1])))
        sp = d['caps'].get(gi) if gi is not None else None
        return NONE() if sp is None else SOME(Opaque('Match', (d['text'], sp[0], sp[1])))
    @M('regex::Match::as_str', 'Match::as_str')
    def _(I, a, c):
        t, s, e = I.deref(a[0]).data; return t[s:e]
    def byte_off(I, t, k):
        return I.byte_len(t[:k])
    @M('regex::Match::start', 'Match::start')
    def _(I, a, c):
        t, s, e = I.deref(a[0]).data; return byte_off(I, t, s)
    @M('regex::Match::end', 'Match::end')
    def _(I, a, c):
        t, s, e = I.deref(a[0]).data; return byte_off(I, t, e)
    def replace(I, a, c, all_):
        r = I.deref(a[0]).data; text = guard_len(I, I.str_of(a[1]))
        rep = I.deref(a[2])
        if not isinstance(rep, (tuple, RString)): raise Unsupported('Replacer %r' % (rep,))
        tpl = I.str_of(rep)
        ms = rx.all_matches(I.ctx, r.pat, text) if all_ else [m for m in [rx.first_match(I.ctx, r.pat, text)] if m]
        if not ms: return Agg('Cow', [text])
        out = []; last = 0
        for (s, e, caps) in ms:
            out.extend(text[last:s])
            cc = dict(caps); cc[0] = (s, e)
            out.extend(rx.expand(I.ctx, tpl, text, cc, r.ng, r.names))
            last = e
        out.extend(text[last:])
        return Agg('Cow', [tuple(out)])
    @M('regex::Regex::replace', 'Regex::replace')
    def _(I, a, c): return replace(I, a, c, False)
    @M('regex::Regex::replace_all', 'Regex::replace_all')
    def _(I, a, c): return replace(I, a, c, True)
    @M('<&str as Into>::into', '<&String as Into>::into')
    def _(I, a, c): return Agg('Cow', [I.str_of(a[0])])
    @M('<str as Into>::into')
    def _(I, a, c): return Agg('Cow', [I.str_of(a[0])])
