"""Depth-first exploration of all paths of a harness (see ctx.py) and collection of leaves."""
import time
import traceback
import z3
from ctx import Ctx, Infeasible, Inconclusive, Cutoff
from engine import (Interp, RustPanic, Unsupported, StepBudget, ProcessExit, EndPath, RString, RVec, Slice, Agg, Ref, RMap, Opaque,
                    is_sym)

class Violation(Exception):
    def __init__(self, label, model, detail=None):
        Exception.__init__(self, label); self.label = label; self.model = model; self.detail = detail

def expect(I, cond, label, detail=None):
    """harness assertion.  It is a branch of the exploration (recorded in the trail, so re-execution is deterministic):
    the side on which `cond` is false - decided by the solver query `pc AND NOT cond` - ends in a violation leaf"""
    ctx = I.ctx
    ctx.assert_queries += 1
    if cond is True: return
    if cond is False or not ctx.branch(cond):
        raise Violation(label, ctx.current_model(), detail)

def model_inputs(ctx, model):
    out = {}
    for name, var, kind in ctx.inputs:
        v = model.eval(var, model_completion=True)
        if kind == 'bool': out[name] = z3.is_true(v)
        elif kind.startswith('ints'): out[name] = v.as_signed_long()
        else: out[name] = v.as_long()
    return out

def conc(model, v, depth=0):
    """instantiate a symbolic value under a model into plain python data (str for char sequences)"""
    if isinstance(v, Ref): v = v.o[v.k]
    if is_sym(v):
        r = model.eval(v, model_completion=True)
        if z3.is_bool(r): return z3.is_true(r)
        return r.as_long()
    if isinstance(v, (bool, int, float)) or v is None: return v
    if isinstance(v, RString): return chars_to_str(model, v.c)
    if isinstance(v, tuple):
        if all(isinstance(x, int) and not isinstance(x, bool) or is_sym(x) for x in v): return chars_to_str(model, v)
        return [conc(model, x) for x in v]
    if isinstance(v, RVec): return [conc(model, x) for x in v.v]
    if isinstance(v, Slice): return [conc(model, x) for x in v.items()]
    if isinstance(v, list): return [conc(model, x) for x in v]
    if isinstance(v, dict): return {k: conc(model, x) for k, x in v.items()}
    if isinstance(v, Agg):
        if v.tag is None: return [conc(model, x) for x in v.f]
        if v.tag in ('Some', 'Ok'): return {v.tag: conc(model, v.f[0])}
        if v.tag in ('None',): return None
        if isinstance(v.f, list): return {str(v.tag): [conc(model, x) for x in v.f]}
        return str(v.tag)
    if isinstance(v, RMap): return [[conc(model, k), conc(model, x)] for k, x in v.items]
    if isinstance(v, Opaque):
        if isinstance(v.data, tuple): return chars_to_str(model, v.data)
        return '<%s>' % v.what
    return repr(v)

def chars_to_str(model, chars):
    out = []
    for c in chars:
        if is_sym(c): c = model.eval(c, model_completion=True).as_long()
        try: out.append(chr(c))
        except Exception: out.append('�')
    return ''.join(out)

class Leaf:
    __slots__ = ('status', 'payload', 'inputs', 'msg', 'where', 'model', 'decisions', 'transcript')
    def __init__(self, status, payload=None, inputs=None, msg=None, where=None, model=None, decisions=0, transcript=None):
        self.status = status; self.payload = payload; self.inputs = inputs; self.msg = msg; self.where = where
        self.model = model; self.decisions = decisions; self.transcript = transcript

class Stats:
    def __init__(self):
        self.paths = 0; self.queries = 0; self.solver_s = 0.0; self.wall_s = 0.0; self.steps = 0
        self.by_status = {}; self.assert_queries = 0; self.infeasible = 0; self.cutoffs = []; self.xc_agree = 0; self.xc_unknown = 0
    def add(self, o):
        self.paths += o.paths; self.queries += o.queries; self.solver_s += o.solver_s; self.steps += o.steps
        self.assert_queries += o.assert_queries; self.infeasible += o.infeasible
        for k, v in o.by_status.items(): self.by_status[k] = self.by_status.get(k, 0) + v
    def as_dict(self):
        return dict(paths=self.paths, queries=self.queries, solver_s=round(self.solver_s, 3), steps=self.steps,
                    by_status=self.by_status, assert_queries=self.assert_queries, infeasible=self.infeasible, xc_agree=self.xc_agree, xc_unknown=self.xc_unknown)

def explore(prog, harness, on_leaf, profile='dev', max_paths=None, deadline=None, prefix=None, split_depth=None,
            step_budget=2_000_000, solver_timeout_ms=30000, setup=None):
    """run `harness(I)` on every feasible path.  on_leaf(leaf, I) is called per path with the model still live."""
    ctx = Ctx(timeout_ms=solver_timeout_ms)
    ctx.forced_prefix = prefix
    ctx.split_depth = split_depth
    st = Stats()
    t0 = time.time()
    while True:
        ctx.begin_path()
        I = Interp(ctx, prog, profile=profile, step_budget=step_budget)
        leaf = None
        try:
            if setup: setup(I)
            payload = harness(I)
            leaf = Leaf('ok', payload)
        except EndPath as e:
            leaf = Leaf('ok', {'end': e.reason})
        except Violation as v:
            leaf = Leaf('violation', v.detail, msg=v.label, model=v.model)
        except RustPanic as p:
            leaf = Leaf('panic', None, msg=p.msg, where=p.where)
        except ProcessExit as e:
            leaf = Leaf('exit', e.code)
        except Infeasible:
            st.infeasible += 1
        except Cutoff:
            st.cutoffs.append(ctx.trail_signature())
        except Unsupported as u:
            leaf = Leaf('unsupported', None, msg=str(u), where=getattr(u, 'where', None))
        except StepBudget as b:
            leaf = Leaf('budget', None, msg=str(b), where=getattr(b, 'where', None))
        except Inconclusive as b:
            leaf = Leaf('inconclusive', None, msg=str(b))
        except RecursionError:
            leaf = Leaf('budget', None, msg='recursion depth')
        st.steps += I.steps
        if leaf is not None:
            st.paths += 1
            st.by_status[leaf.status] = st.by_status.get(leaf.status, 0) + 1
            try:
                if leaf.model is None:
                    leaf.model = ctx.current_model()
                leaf.inputs = model_inputs(ctx, leaf.model)
            except (Infeasible, Inconclusive):
                leaf.inputs = None
            leaf.decisions = ctx.decisions_on_path
            leaf.transcript = I.transcript
            on_leaf(leaf, I)
        if max_paths is not None and st.paths >= max_paths:
            st.by_status['truncated'] = 1; break
        if deadline is not None and time.time() > deadline:
            st.by_status['deadline'] = 1; break
        if not ctx.backtrack(): break
    st.queries = ctx.nq; st.solver_s = ctx.tq; st.assert_queries = ctx.assert_queries; st.xc_agree = ctx.xc_agree; st.xc_unknown = ctx.xc_unknown
    st.wall_s = time.time() - t0
    return st
