"""nix / libc models: plain-data types (Pid, Signal, WaitPidFlag, Errno) and the hooks through which a harness
installs its OS model (I.os).  Every call that would reach the kernel is answered by I.os, never by the host."""
import re
import z3
from engine import (RString, RVec, Agg, Ref, Opaque, UNIT, NONE, SOME, OK, ERR, TUP, Unsupported, EndPath, ProcessExit,
                    is_sym, lit, DISCR)

SIGNALS = {'SIGHUP': 1, 'SIGINT': 2, 'SIGQUIT': 3, 'SIGKILL': 9, 'SIGTERM': 15, 'SIGCHLD': 17, 'SIGCONT': 18, 'SIGSTOP': 19,
           'SIGTSTP': 20, 'SIGTTIN': 21, 'SIGTTOU': 22, 'SIGPIPE': 13, 'SIGUSR1': 10, 'SIGUSR2': 12, 'SIGALRM': 14}
ERRNOS = {'EPERM': 1, 'ENOENT': 2, 'ESRCH': 3, 'EINTR': 4, 'EIO': 5, 'ENOEXEC': 8, 'EBADF': 9, 'ECHILD': 10, 'EAGAIN': 11,
          'ENOMEM': 12, 'EACCES': 13, 'EEXIST': 17, 'ENOTDIR': 20, 'EISDIR': 21, 'EINVAL': 22, 'ENFILE': 23, 'EMFILE': 24,
          'ENOTTY': 25, 'EPIPE': 32}
WAITFLAGS = {'WNOHANG': 1, 'WUNTRACED': 2, 'WCONTINUED': 8, 'WEXITED': 4, 'WSTOPPED': 2, 'WNOWAIT': 0x1000000}
for k, v in ERRNOS.items(): DISCR.setdefault(k, v)
for i, k in enumerate(['Exited', 'Signaled', 'Stopped', 'PtraceEvent', 'PtraceSyscall', 'Continued', 'StillAlive']):
    DISCR.setdefault(k, i)

def errno(name): return Agg(name, [])
def errno_from_raw(n):
    for k, v in ERRNOS.items():
        if v == n: return Agg(k, [])
    return Agg('UnknownErrno', [n])

def install(prog):
    M = prog.model
    def const_model(I, fn, s):
        s = re.sub(r'::\{constant#\d+\}$', '', s)
        m = re.match(r'^(?:nix::sys::signal::)?Signal::(SIG\w+)$', s) or re.match(r'^nix::sys::signal::(SIG\w+)$', s)
        if m and m.group(1) in SIGNALS: return SIGNALS[m.group(1)]
        m = re.match(r'^(?:nix::sys::wait::)?WaitPidFlag::(W\w+)$', s)
        if m and m.group(1) in WAITFLAGS: return WAITFLAGS[m.group(1)]
        m = re.match(r'^(?:nix::errno::)?(?:Errno|nix::Error)::(E\w+)$', s) or re.match(r'^nix::(?:errno::Errno|Error)::(E\w+)$', s)
        if m: return Agg(m.group(1), [])
        m = re.match(r'^libc::(SIG\w+)$', s)
        if m and m.group(1) in SIGNALS: return SIGNALS[m.group(1)]
        if s in ('libc::SIG_DFL', 'libc::SIG_BLOCK'): return 0
        if s in ('libc::SIG_IGN', 'libc::SIG_UNBLOCK'): return 1
        if s == 'libc::SIG_SETMASK': return 2
        if s in ('std::path::MAIN_SEPARATOR', 'MAIN_SEPARATOR', 'path::MAIN_SEPARATOR'): return 47
        return NotImplemented
    prog.const_models.append(const_model)
    @M('<WaitPidFlag as BitOr>::bitor')
    def _(I, a, c): return a[0] | a[1]
    @M('nix::unistd::Pid::from_raw', 'Pid::from_raw', '<Pid as Into>::into', '<i32 as From<Pid>>::from#x', 'Pid::as_raw')
    def _(I, a, c): return I.deref(a[0])
    prog.models['<i32 as From>::from'] = lambda I, a, c: I.deref(a[0])
    @M('nix::errno::<impl nix::errno::Errno>::from_raw', 'Errno::from_raw', '<impl nix::errno::Errno>::from_raw')
    def _(I, a, c):
        n = I.concretize(a[0]); return errno_from_raw(n)
    @M('nix::sys::wait::waitpid', 'waitpid')
    def _(I, a, c):
        if I.os is None: raise Unsupported('waitpid without an OS model')
        opts = I.deref(a[1])
        flags = opts.f[0] if isinstance(opts, Agg) and opts.tag == 'Some' else 0
        return I.os.waitpid(I, I.deref(a[0]), flags)
    def osfn(name):
        def f(I, a, c):
            if I.os is None or not hasattr(I.os, name): raise Unsupported('%s without an OS model' % name)
            return getattr(I.os, name)(I, *[I.deref(x) for x in a])
        return f
    for key, name in (('libc::getpgid', 'getpgid'), ('getpgid', 'getpgid'), ('libc::setpgid', 'setpgid'), ('libc::tcsetpgrp', 'tcsetpgrp'),
                      ('tcsetpgrp', 'tcsetpgrp'), ('libc::tcgetpgrp', 'tcgetpgrp'), ('tcgetpgrp', 'tcgetpgrp'), ('libc::killpg', 'killpg'),
                      ('libc::kill', 'kill'), ('libc::isatty', 'isatty'), ('libc::close', 'close'), ('libc::dup', 'dup'), ('libc::dup2', 'dup2'),
                      ('libc::pipe', 'pipe'), ('nix::unistd::fork', 'fork'), ('nix::unistd::execve', 'execve'), ('execve', 'execve')):
        prog.models.setdefault(key, osfn(name))
