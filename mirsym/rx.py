"""Model of the `regex` crate for the syntax subset cicada uses, over concrete-shape / symbolic-content text.

  parse(pattern)                      Rust-regex syntax -> AST (literals, classes, perl classes, '.', anchors, groups
                                      (capturing, named, non-capturing), alternation, greedy/lazy * + ? {m,n}, (?m))
  is_match(pattern, text)             Boolean term (position x sub-expression dynamic programme)
  candidates(pattern, text, start)    matches in leftmost-first (backtracking priority) order with their conditions;
                                      the caller forks on "this candidate matches and no earlier one does"
  expand(ctx, template, caps, ...)    replacement-template interpolation ($1, $name, ${name}, $$) by the documented rules

The pattern text always comes from the MIR dump (string constants, or format! of constants).  The model is validated
against the real `regex` crate on every explored leaf (native replay) and by tools/rx_selftest.
"""
import glob
import os
import re
import z3

class RxErr(Exception):
    pass

_PERL = {}
def _load_unicode_tables():
    """\\d \\w \\s are Unicode aware in the regex crate; read the tables of the vendored regex-syntax."""
    if _PERL: return
    base = os.path.expanduser('~/.cargo/registry/src')
    cands = sorted(glob.glob(base + '/*/regex-syntax-*/src/unicode_tables'))
    want = None
    try:
        lock = open('/repo/Cargo.lock').read()
        m = re.search(r'name = "regex-syntax"\nversion = "([^"]+)"', lock)
        if m:
            for c in cands:
                if 'regex-syntax-' + m.group(1) + '/' in c: want = c
    except Exception:
        pass
    d = want or (cands[-1] if cands else None)
    def table(fname, const):
        if d is None: return None
        try:
            txt = open(os.path.join(d, fname)).read()
        except Exception:
            return None
        i = txt.index('pub const ' + const)
        j = txt.index('];', i)
        out = []
        for a, b in re.findall(r"\('((?:\\u\{[0-9a-fA-F]+\})|(?:\\.)|[^\\'])', '((?:\\u\{[0-9a-fA-F]+\})|(?:\\.)|[^\\'])'\)", txt[i:j]):
            out.append((_chr(a), _chr(b)))
        return out
    _PERL['d'] = table('perl_decimal.rs', 'DECIMAL_NUMBER') or [(48, 57)]
    _PERL['s'] = table('perl_space.rs', 'WHITE_SPACE') or [(9, 13), (32, 32), (0x85, 0x85), (0xA0, 0xA0)]
    _PERL['w'] = table('perl_word.rs', 'PERL_WORD') or [(48, 57), (65, 90), (95, 95), (97, 122)]

def _chr(s):
    if s.startswith('\\u{'): return int(s[3:-1], 16)
    if s.startswith('\\'):
        return {'n': 10, 't': 9, 'r': 13, '0': 0, '\\': 92, "'": 39, '"': 34}[s[1]]
    return ord(s)

def perl(cls):
    _load_unicode_tables()
    return _PERL[cls]

def _negate(ranges):
    out = []; prev = 0
    for lo, hi in sorted(ranges):
        if lo > prev: out.append((prev, lo - 1))
        prev = max(prev, hi + 1)
    if prev <= 0x10FFFF: out.append((prev, 0x10FFFF))
    return out

# AST: ('lit', cp) ('class', neg, ranges) ('cat', [..]) ('alt', [..]) ('rep', node, lo, hi, lazy)
#      ('group', idx|None, name, node) ('bol',) ('eol',) ('mbol',) ('meol',) ('empty',)
class _P:
    def __init__(self, s):
        self.s = s; self.i = 0; self.ngroups = 0; self.names = {}; self.multiline = False; self.icase = False; self.dotall = False
    def peek(self): return self.s[self.i] if self.i < len(self.s) else None
    def eat(self):
        if self.i >= len(self.s): raise RxErr('unexpected end')
        c = self.s[self.i]; self.i += 1; return c
    def parse(self):
        n = self.alt()
        if self.i != len(self.s): raise RxErr('trailing ' + self.s[self.i:])
        return n
    def alt(self):
        alts = [self.cat()]
        while self.peek() == '|':
            self.eat(); alts.append(self.cat())
        return alts[0] if len(alts) == 1 else ('alt', alts)
    def cat(self):
        items = []
        while self.peek() is not None and self.peek() not in '|)':
            it = self.rep()
            if it is not None: items.append(it)
        return ('cat', items)
    def rep(self):
        a = self.atom()
        while self.peek() is not None and self.peek() in '*+?{':
            c = self.peek()
            if c == '{':
                j = self.s.find('}', self.i)
                body = self.s[self.i + 1:j] if j >= 0 else ''
                if j < 0 or not body or not all(ch.isdigit() or ch == ',' for ch in body):
                    raise RxErr('repetition syntax')
                self.i = j + 1
                if ',' in body:
                    lo, hi = body.split(','); lo = int(lo or 0); hi = int(hi) if hi else None
                else: lo = hi = int(body)
            else:
                self.eat()
                lo, hi = {'*': (0, None), '+': (1, None), '?': (0, 1)}[c]
            lazy = False
            if self.peek() == '?': self.eat(); lazy = True
            if a is None: raise RxErr('repetition of nothing')
            a = ('rep', a, lo, hi, lazy)
        return a
    def atom(self):
        c = self.eat()
        if c == '(':
            idx = None; name = None
            if self.s.startswith('?:', self.i): self.i += 2
            elif self.s.startswith('?P<', self.i) or (self.s.startswith('?<', self.i) and self.s[self.i + 2] not in '=!'):
                j = self.s.index('>', self.i); name = self.s[self.s.index('<', self.i) + 1:j]; self.i = j + 1
                self.ngroups += 1; idx = self.ngroups; self.names[name] = idx
            elif self.s.startswith('?', self.i):
                # flags group  (?flags)  or (?flags:...)
                j = self.i + 1; on = True; flags = []
                while self.s[j] not in ':)':
                    if self.s[j] == '-': on = False
                    else: flags.append((self.s[j], on))
                    j += 1
                for f, o in flags:
                    if f == 'm': self.multiline = o
                    elif f == 'i':
                        self.icase = o
                    elif f == 's': self.dotall = o
                    elif f in 'Uux': raise RxErr('flag ' + f)
                    else: raise RxErr('flag ' + f)
                if self.s[j] == ')':
                    self.i = j + 1
                    return None
                self.i = j + 1
            else:
                self.ngroups += 1; idx = self.ngroups
            n = self.alt()
            if self.eat() != ')': raise RxErr('paren')
            return ('group', idx, name, n)
        if c == ')': raise RxErr('unopened paren')
        if c == '[': return self.cls()
        if c == '.': return ('class', True, []) if getattr(self, 'dotall', False) else ('class', True, [(10, 10)])
        if c == '^': return ('mbol',) if self.multiline else ('bol',)
        if c == '$': return ('meol',) if self.multiline else ('eol',)
        if c == '\\':
            e = self.eat()
            if e in 'dws': return ('class', False, perl(e))
            if e in 'DWS': return ('class', True, perl(e.lower()))
            if e == 'n': return self.lit(10)
            if e == 't': return self.lit(9)
            if e == 'r': return self.lit(13)
            if e in 'bBAzpPxuUQE' or e.isdigit(): raise RxErr('escape \\' + e)
            if e.isalnum(): raise RxErr('escape \\' + e)
            return self.lit(ord(e))
        return self.lit(ord(c))
    def lit(self, cp):
        if self.icase:
            ch = chr(cp)
            alts = {cp, ord(ch.lower()) if len(ch.lower()) == 1 else cp, ord(ch.upper()) if len(ch.upper()) == 1 else cp}
            if len(alts) > 1:
                return ('class', False, sorted((a, a) for a in alts))
        return ('lit', cp)
    def cls(self):
        neg = False; ranges = []
        if self.peek() == '^': self.eat(); neg = True
        first = True
        while True:
            c = self.eat()
            if c == ']' and not first: break
            first = False
            if c == '[' and self.peek() == ':': raise RxErr('posix class')
            if c == '\\':
                e = self.eat()
                if e in 'dws': ranges += perl(e); continue
                if e in 'DWS': ranges += _negate(perl(e.lower())); continue
                lo = {'n': 10, 't': 9, 'r': 13}.get(e)
                if lo is None:
                    if e.isalnum(): raise RxErr('class escape \\' + e)
                    lo = ord(e)
            else: lo = ord(c)
            if self.peek() == '-' and self.i + 1 < len(self.s) and self.s[self.i + 1] != ']':
                self.eat(); h = self.eat()
                if h == '\\':
                    h = self.eat()
                    h = {'n': '\n', 't': '\t', 'r': '\r'}.get(h, h)
                if ord(h) < lo: raise RxErr('invalid range')
                ranges.append((lo, ord(h)))
            else: ranges.append((lo, lo))
        if self.icase:
            extra = []
            for lo, hi in ranges:
                if hi - lo < 200:
                    for cp in range(lo, hi + 1):
                        ch = chr(cp)
                        for v in (ch.lower(), ch.upper()):
                            if len(v) == 1 and ord(v) != cp: extra.append((ord(v), ord(v)))
            ranges += extra
        return ('class', neg, ranges)

_cache = {}
def parse(p):
    r = _cache.get(p)
    if r is None:
        ps = _P(p)
        ast = ps.parse()
        r = (ast, ps.ngroups, ps.names)
        _cache[p] = r
    return r

def valid(p):
    try:
        parse(p); return True
    except RxErr:
        return False

def is_sym(c): return isinstance(c, z3.ExprRef)

_class_cache = {}
def in_class(c, neg, ranges):
    if not ranges: return bool(neg)
    if not is_sym(c):
        r = False
        for lo, hi in ranges:
            if lo <= c <= hi: r = True; break
        return (not r) if neg else r
    key = (c.get_id(), neg, id(ranges))
    e = _class_cache.get(key)
    if e is not None and e[0] is ranges:
        return e[1]
    parts = [(c == lo) if lo == hi else z3.And(z3.UGE(c, lo), z3.ULE(c, hi)) for lo, hi in ranges]
    x = z3.Or(*parts) if len(parts) > 1 else parts[0]
    if neg: x = z3.Not(x)
    if len(_class_cache) > 20000: _class_cache.clear()
    _class_cache[key] = (ranges, x)
    return x

def lit_eq(c, cp):
    if not is_sym(c): return c == cp
    return c == cp

def b_and(a, b):
    if a is True: return b
    if b is True: return a
    if a is False or b is False: return False
    return z3.And(a, b)

def b_or(a, b):
    if a is False: return b
    if b is False: return a
    if a is True or b is True: return True
    return z3.Or(a, b)

def _is_nl(c):
    return lit_eq(c, 10)

def ends(node, text, i, memo):
    """dict end_pos -> condition that node matches text[i:end] (priorities ignored: for is_match)"""
    key = (id(node), i)
    r = memo.get(key)
    if r is not None: return r
    k = node[0]; n = len(text); out = {}
    if k == 'lit':
        if i < n:
            e = lit_eq(text[i], node[1])
            if e is not False: out[i + 1] = e
    elif k == 'class':
        if i < n:
            e = in_class(text[i], node[1], node[2])
            if e is not False: out[i + 1] = e
    elif k == 'bol':
        if i == 0: out[i] = True
    elif k == 'eol':
        if i == n: out[i] = True
    elif k == 'mbol':
        if i == 0: out[i] = True
        else:
            e = _is_nl(text[i - 1])
            if e is not False: out[i] = e
    elif k == 'meol':
        if i == n: out[i] = True
        else:
            e = _is_nl(text[i])
            if e is not False: out[i] = e
    elif k == 'group':
        out = ends(node[3], text, i, memo)
    elif k == 'cat':
        cur = {i: True}
        for sub in node[1]:
            nxt = {}
            for p, c in cur.items():
                for q, d in ends(sub, text, p, memo).items():
                    nxt[q] = b_or(nxt.get(q, False), b_and(c, d))
            cur = nxt
            if not cur: break
        out = cur
    elif k == 'alt':
        for sub in node[1]:
            for q, d in ends(sub, text, i, memo).items():
                out[q] = b_or(out.get(q, False), d)
    elif k == 'rep':
        _, sub, lo, hi, lazy = node
        cur = {i: True}; cnt = 0
        if lo == 0: out[i] = True
        while cur and (hi is None or cnt < hi):
            nxt = {}
            for p, c in cur.items():
                for q, d in ends(sub, text, p, memo).items():
                    if q == p and cnt >= lo: continue
                    nxt[q] = b_or(nxt.get(q, False), b_and(c, d))
            cnt += 1
            if nxt == cur and cnt > lo + n + 1: break
            cur = nxt
            if cnt >= lo:
                for q, d in cur.items(): out[q] = b_or(out.get(q, False), d)
            if cnt > lo + n + 1: break
    else:
        raise RxErr(k)
    memo[key] = out
    return out

def is_match(pattern, text):
    ast, _, _ = parse(pattern)
    memo = {}; res = False
    for i in range(len(text) + 1):
        for q, d in ends(ast, text, i, memo).items():
            res = b_or(res, d)
            if res is True: return True
    return res

def _m(node, text, i, caps, cond, k):
    t = node[0]; n = len(text)
    if t == 'lit' or t == 'class':
        if i < n:
            c = text[i]
            e = lit_eq(c, node[1]) if t == 'lit' else in_class(c, node[1], node[2])
            if e is not False:
                yield from k(i + 1, caps, b_and(cond, e))
    elif t == 'bol':
        if i == 0: yield from k(i, caps, cond)
    elif t == 'eol':
        if i == n: yield from k(i, caps, cond)
    elif t == 'mbol':
        if i == 0: yield from k(i, caps, cond)
        else:
            e = _is_nl(text[i - 1])
            if e is not False: yield from k(i, caps, b_and(cond, e))
    elif t == 'meol':
        if i == n: yield from k(i, caps, cond)
        else:
            e = _is_nl(text[i])
            if e is not False: yield from k(i, caps, b_and(cond, e))
    elif t == 'group':
        idx = node[1]
        def k2(j, caps2, cond2):
            if idx is not None:
                caps2 = dict(caps2); caps2[idx] = (i, j)
            yield from k(j, caps2, cond2)
        yield from _m(node[3], text, i, caps, cond, k2)
    elif t == 'cat':
        items = node[1]
        def step(idx):
            def kk(j, caps2, cond2):
                if idx == len(items): yield from k(j, caps2, cond2)
                else: yield from _m(items[idx], text, j, caps2, cond2, step(idx + 1))
            return kk
        yield from step(0)(i, caps, cond)
    elif t == 'alt':
        for sub in node[1]:
            yield from _m(sub, text, i, caps, cond, k)
    elif t == 'rep':
        _, sub, lo, hi, lazy = node
        def loop(cnt):
            def kk(j, caps2, cond2):
                can_more = hi is None or cnt < hi
                def more():
                    if can_more:
                        def k3(j2, caps3, cond3):
                            if j2 == j and cnt >= lo: return   # an empty iteration cannot make progress
                            yield from loop(cnt + 1)(j2, caps3, cond3)
                        yield from _m(sub, text, j, caps2, cond2, k3)
                def stop():
                    if cnt >= lo: yield from k(j, caps2, cond2)
                if lazy:
                    yield from stop(); yield from more()
                else:
                    yield from more(); yield from stop()
            return kk
        yield from loop(0)(i, caps, cond)
    else:
        raise RxErr(t)

def candidates(pattern, text, start=0):
    """yield (s, e, caps, cond) in leftmost-first priority order, searching from `start`"""
    ast, ng, names = parse(pattern)
    for s in range(start, len(text) + 1):
        def fin(j, caps, cond, s=s):
            yield (s, j, caps, cond)
        yield from _m(ast, text, s, {}, True, fin)

def first_match(ctx, pattern, text, start=0):
    """leftmost-first match under the current path; forks (ctx.branch) on symbolic conditions.
    returns (s, e, caps) or None"""
    for s, e, caps, cond in candidates(pattern, text, start):
        if cond is True: return (s, e, caps)
        if ctx.branch(cond): return (s, e, caps)
    return None

def all_matches(ctx, pattern, text):
    """non-overlapping successive matches as find_iter / captures_iter yield them"""
    out = []
    pos = 0; n = len(text)
    last_end = None
    while pos <= n:
        m = first_match(ctx, pattern, text, pos)
        if m is None: break
        s, e, caps = m
        if e == s:
            # empty match: the iterator does not yield an empty match adjacent to the previous match
            if last_end is not None and s == last_end:
                pos = s + 1
                # retry from next position, but a match starting at s of non-zero length is not possible here
                continue
            out.append(m); last_end = e; pos = e + 1
            continue
        out.append(m); last_end = e; pos = e
    return out

_WORD = None
def _is_cap_letter(ctx, c):
    if not is_sym(c):
        return (48 <= c <= 57) or (65 <= c <= 90) or (97 <= c <= 122) or c == 95
    return ctx.branch(z3.Or(z3.And(z3.UGE(c, 48), z3.ULE(c, 57)), z3.And(z3.UGE(c, 65), z3.ULE(c, 90)),
                            z3.And(z3.UGE(c, 97), z3.ULE(c, 122)), c == 95))
def _is(ctx, c, cp):
    if not is_sym(c): return c == cp
    return ctx.branch(c == cp)
def _is_digit(ctx, c):
    if not is_sym(c): return 48 <= c <= 57
    return ctx.branch(z3.And(z3.UGE(c, 48), z3.ULE(c, 57)))

def expand(ctx, template, text, caps, ngroups, names):
    """regex::Captures::expand: interpolate `template` (tuple of chars, may be symbolic); returns list of chars"""
    out = []
    rep = list(template)
    i = 0; n = len(rep)
    def group_text(idx):
        if idx == 0:
            return None
        sp = caps.get(idx)
        if sp is None: return []
        return list(text[sp[0]:sp[1]])
    while i < n:
        c = rep[i]
        if not _is(ctx, c, 36):
            out.append(c); i += 1; continue
        # '$'
        if i + 1 < n and _is(ctx, rep[i + 1], 36):
            out.append(36); i += 2; continue
        if i + 1 >= n:
            out.append(36); i += 1; continue
        if _is(ctx, rep[i + 1], 123):      # '{'
            j = i + 2
            while j < n and not _is(ctx, rep[j], 125): j += 1
            if j >= n:
                out.append(36); i += 1; continue
            name = rep[i + 2:j]
            end = j + 1
            braced = True
        else:
            j = i + 1
            while j < n and _is_cap_letter(ctx, rep[j]): j += 1
            if j == i + 1:
                out.append(36); i += 1; continue
            name = rep[i + 1:j]
            end = j
            braced = False
        i = end
        # number?
        digs = name
        isnum = len(name) > 0
        if braced and name and _is(ctx, name[0], 43) and len(name) > 1:    # parse::<usize> accepts a leading '+'
            digs = name[1:]
        for d in digs:
            if not _is_digit(ctx, d): isnum = False; break
        if isnum:
            # concrete digits now (each decided by branch); value
            val = 0
            for d in digs:
                dv = d if not is_sym(d) else _concretize_digit(ctx, d)
                val = val * 10 + (dv - 48)
            if val < (1 << 64):
                if val == 0:
                    s0 = caps.get(0)
                    out.extend(text[s0[0]:s0[1]])
                elif val <= ngroups:
                    out.extend(group_text(val))
                continue
        # named
        for nm, idx in names.items():
            if len(nm) == len(name):
                ok = True
                for a, b in zip(nm, name):
                    if not _is(ctx, b, ord(a)): ok = False; break
                if ok:
                    out.extend(group_text(idx))
                    break
    return out

def _concretize_digit(ctx, d):
    for v in range(48, 58):
        if ctx.branch(d == v): return v
    raise RxErr('digit')
