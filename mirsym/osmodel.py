"""POSIX process / descriptor model behind the libc, nix and std::fs calls of the pipeline code.

One interpreter path follows ONE process: fork() is a choice point - the solver explores "continue as the parent"
(with a fresh child pid), "continue as the child" (which then runs until execve / process::exit, where its descriptor
table, argv, envp and process group are recorded as the leaf) and "fork failed".  pipe(), dup(), open() may fail at
any call (solver's choice) when the harness allows it; descriptor numbers follow the lowest-free rule, and the initial
table is whatever the harness makes it (0,1,2 plus an arbitrary subset of higher descriptors)."""
import z3
from engine import (RString, RVec, Agg, Ref, Opaque, UNIT, NONE, SOME, OK, ERR, TUP, Unsupported, EndPath, ProcessExit,
                    is_sym, lit)
import models_os

class FObj:
    """an open file description"""
    __slots__ = ('kind', 'ident', 'mode', 'written')
    def __init__(self, kind, ident=None, mode=None):
        self.kind = kind; self.ident = ident; self.mode = mode; self.written = []
    def __repr__(self): return '%s(%s%s)' % (self.kind, self.ident, ',' + self.mode if self.mode else '')
    def key(self): return (self.kind, self.ident, self.mode)

class OS:
    def __init__(self, I, extra_open=(), faults=False, max_faults=1, tty=True, shell_pid=1000, shell_pgid=1000, fork_faults=False):
        self.I = I
        self.fds = {0: FObj('tty', 'in'), 1: FObj('tty', 'out'), 2: FObj('tty', 'err')}
        if not tty:
            self.fds = {0: FObj('file', 'stdin0', 'r'), 1: FObj('file', 'stdout0', 'w'), 2: FObj('file', 'stderr0', 'w')}
        for fd in extra_open: self.fds[fd] = FObj('other', fd)
        self.initial = dict(self.fds)
        self.cloexec = set()             # descriptor flags FD_CLOEXEC (std::fs opens set it; pipe(2), dup, dup2 do not)
        self.faults = faults; self.faults_left = max_faults; self.fork_faults = fork_faults
        self.npipes = 0; self.nforks = 0; self.nopen = 0
        self.role = 'shell'              # or ('child', k)
        self.pid = shell_pid; self.shell_pid = shell_pid
        self.pgid = {shell_pid: shell_pgid}
        self.tty_fg = shell_pgid
        self.children = []               # pids in fork order (parent view)
        self.calls = []                  # (name, args) log of process-group / terminal calls
        self.opened = []                 # (path chars, mode) of every open()
        self.exec = None
        self.fail_open = None            # harness hook: path -> bool/None(choice)
        self.signals = []
        self.ncall = 0
        self.tcsetpgrp_may_fail = False
        self.wrote = []                  # (FObj, chars) of write_all calls
        self.read_data = {}              # FObj.ident -> chars returned by read_to_string

    # ---- helpers -----------------------------------------------------------------------------------
    def lowest_free(self, start=0):
        fd = start
        while fd in self.fds: fd += 1
        return fd
    def _fault(self, what):
        if not self.faults or self.faults_left <= 0: return False
        self.ncall += 1
        if self.I.choose('fault%d_%s' % (self.ncall, what), 2) == 1:
            self.faults_left -= 1
            return True
        return False
    def table(self):
        return {fd: o for fd, o in sorted(self.fds.items())}

    # ---- descriptor calls --------------------------------------------------------------------------
    def pipe_pair(self, I):
        """returns (r, w) or None on EMFILE"""
        if self._fault('pipe'): return None
        self.npipes += 1
        r = self.lowest_free(); self.fds[r] = FObj('pipe_r', self.npipes)
        w = self.lowest_free(); self.fds[w] = FObj('pipe_w', self.npipes)
        return r, w
    def close(self, I, fd):
        fd = I.concretize(fd)
        self.calls.append(('close', fd))
        if fd in self.fds:
            del self.fds[fd]; self.cloexec.discard(fd); return 0
        self.calls.append(('EBADF-close', fd))
        return -1
    def dup(self, I, fd):
        fd = I.concretize(fd)
        if fd not in self.fds or self._fault('dup'): return -1
        n = self.lowest_free(); self.fds[n] = self.fds[fd]; self.cloexec.discard(n)
        return n
    def dup2(self, I, src, dst):
        src = I.concretize(src); dst = I.concretize(dst)
        self.calls.append(('dup2', src, dst))
        if src not in self.fds:
            self.calls.append(('EBADF-dup2', src, dst)); return -1
        self.fds[dst] = self.fds[src]
        if dst != src: self.cloexec.discard(dst)
        return dst
    def open(self, I, path, mode, cloexec=True):
        """-> fd or None (error)"""
        self.nopen += 1
        fail = self.fail_open(tuple(path)) if self.fail_open else None
        if fail is None: fail = self._fault('open')
        self.opened.append((tuple(path), mode, not fail))
        if fail: return None
        fd = self.lowest_free()
        self.fds[fd] = FObj('file', tuple(path), mode)
        if cloexec: self.cloexec.add(fd)
        else: self.cloexec.discard(fd)
        return fd
    def isatty(self, I, fd):
        fd = I.concretize(fd)
        o = self.fds.get(fd)
        return 1 if o is not None and o.kind == 'tty' else 0

    # ---- processes ---------------------------------------------------------------------------------
    def fork(self, I):
        self.nforks += 1
        k = self.nforks
        opts = ['parent', 'child'] + (['fail'] if self.fork_faults and self.faults_left > 0 else [])
        c = opts[I.choose('fork%d' % k, len(opts))]
        if c == 'fail':
            self.faults_left -= 1
            return ERR(models_os.errno('EAGAIN'))
        cpid = self.shell_pid + k
        if c == 'parent':
            self.children.append(cpid)
            self.pgid[cpid] = self.pgid[self.pid]
            return OK(Agg('Parent', [cpid]))
        # continue as the child: same descriptor table (copied), new pid
        self.role = ('child', k - 1)
        self.pgid[cpid] = self.pgid[self.pid]
        self.pid = cpid
        self.calls = []
        return OK(Agg('Child', []))
    def getpid(self): return self.pid
    def setpgid(self, I, pid, pgid):
        pid = I.concretize(pid); pgid = I.concretize(pgid)
        if pid == 0: pid = self.pid
        if pgid == 0: pgid = pid
        self.pgid[pid] = pgid
        self.calls.append(('setpgid', pid, pgid))
        return 0
    def getpgid(self, I, pid):
        pid = I.concretize(pid)
        if pid == 0: pid = self.pid
        return self.pgid.get(pid, -1)
    def tcsetpgrp(self, I, fd, pgid):
        pgid = I.concretize(pgid)
        self.calls.append(('tcsetpgrp', I.concretize(fd), pgid))
        if self.tcsetpgrp_may_fail and self._fault('tcsetpgrp'): return -1
        self.tty_fg = pgid
        return 0
    def tcgetpgrp(self, I, fd): return self.tty_fg
    def killpg(self, I, pgid, sig):
        self.calls.append(('killpg', I.concretize(pgid), I.concretize(sig))); return 0
    def kill(self, I, pid, sig):
        self.calls.append(('kill', I.concretize(pid), I.concretize(sig))); return 0
    def execve(self, I, prog, args, envp):
        # descriptors the shell had open before the line are taken to be close-on-exec (sqlite, log): they are
        # not part of what this line may leak
        for fd in [fd for fd, o in self.fds.items() if o.kind == 'other' or fd in self.cloexec]: del self.fds[fd]
        self.exec = dict(program=prog, argv=args, envp=envp, fds=self.table(), pgid=self.pgid.get(self.pid), calls=list(self.calls))
        raise EndPath('execve')

def install(prog):
    """models that route std / libc calls to I.os"""
    M = prog.model
    def need(I):
        if I.os is None: raise Unsupported('no OS model installed')
        return I.os
    @M('libc::getpid#os')
    def _(I, a, c): return need(I).getpid()
    @M('<File as FromRawFd>::from_raw_fd', 'File::from_raw_fd')
    def _(I, a, c): return Opaque('File', {'fd': I.concretize(I.deref(a[0]))})
    @M('<File as IntoRawFd>::into_raw_fd', 'File::into_raw_fd')
    def _(I, a, c):
        f = I.deref(a[0]); fd = f.data['fd']; f.data['fd'] = None; return fd
    @M('<File as AsRawFd>::as_raw_fd')
    def _(I, a, c): return I.deref(a[0]).data['fd']
    def drop_file(I, f):
        fd = f.data.get('fd')
        if fd is not None and I.os is not None:
            I.os.fds.pop(fd, None); I.os.cloexec.discard(fd); f.data['fd'] = None
    prog.models['@drop_file'] = drop_file
    @M('<File as Write>::write_all', '<&File as Write>::write_all')
    def _(I, a, c):
        f = I.deref(a[0]); os_ = need(I)
        data = I.deref(a[1])
        chars = tuple(data.data) if isinstance(data, Opaque) else (tuple(data) if isinstance(data, (bytes, tuple)) else tuple(I.list_of(data)))
        o = os_.fds.get(f.data['fd'])
        os_.wrote.append((o, f.data['fd'], chars))
        if o is None: return ERR(Opaque('io::Error'))
        o.written.append(chars)
        return OK(UNIT)
    @M('<File as Write>::flush')
    def _(I, a, c): return OK(UNIT)
    @M('<File as Read>::read_to_string')
    def _(I, a, c):
        f = I.deref(a[0]); os_ = need(I)
        o = os_.fds.get(f.data['fd'])
        if o is None: return ERR(Opaque('io::Error'))
        data = os_.read_data.get((o.kind, o.ident))
        if data is None:
            data = ()
        I.deref(a[1]).c.extend(data)
        return OK(len(data))
    @M('OpenOptions::new')
    def _(I, a, c): return Opaque('OpenOptions', {'read': False, 'write': False, 'append': False, 'truncate': False, 'create': False})
    def oo_set(name):
        def f(I, a, c):
            I.deref(a[0]).data[name] = bool(a[1]); return a[0]
        return f
    for nm in ('read', 'write', 'append', 'truncate', 'create', 'create_new'):
        prog.models['OpenOptions::' + nm] = oo_set(nm)
    @M('OpenOptions::open')
    def _(I, a, c):
        d = I.deref(a[0]).data; os_ = need(I)
        path = I.deref(a[1])
        path = tuple(path.data) if isinstance(path, Opaque) else I.str_of(path)
        mode = ('a' if d['append'] else 'w' if d['write'] else 'r') + ('t' if d['truncate'] else '') + ('c' if d['create'] else '')
        fd = os_.open(I, path, mode)
        if fd is None: return ERR(Opaque('io::Error'))
        return OK(Opaque('File', {'fd': fd}))
    @M('File::open')
    def _(I, a, c):
        os_ = need(I)
        path = I.deref(a[0]); path = tuple(path.data) if isinstance(path, Opaque) else I.str_of(path)
        fd = os_.open(I, path, 'r')
        if fd is None: return ERR(Opaque('io::Error'))
        return OK(Opaque('File', {'fd': fd}))
    @M('File::create')
    def _(I, a, c):
        os_ = need(I)
        path = I.deref(a[0]); path = tuple(path.data) if isinstance(path, Opaque) else I.str_of(path)
        fd = os_.open(I, path, 'wtc')
        if fd is None: return ERR(Opaque('io::Error'))
        return OK(Opaque('File', {'fd': fd}))
    @M('nix::fcntl::open', 'fcntl::open')
    def _(I, a, c):
        os_ = need(I)
        fd = os_.open(I, I.str_of(a[0]), 'r', cloexec=False)
        if fd is None: return ERR(models_os.errno('EMFILE'))
        return OK(fd)
    @M('<impl OFlag>::empty', '<impl Mode>::empty', 'OFlag::empty', 'Mode::empty')
    def _(I, a, c): return 0
    @M('CString::new')
    def _(I, a, c):
        s = I.str_of(a[0])
        for ch in s:
            if not is_sym(ch) and ch == 0: return ERR(Opaque('NulError'))
        return OK(Opaque('CString', tuple(s)))
    @M('CString::as_c_str', '<CString as Deref>::deref')
    def _(I, a, c): return I.deref(a[0])
    @M('nix::unistd::execve', 'execve')
    def _(I, a, c):
        os_ = need(I)
        prog_ = tuple(I.deref(a[0]).data)
        args = [tuple(I.deref(x).data) for x in I.list_of(a[1])]
        envp = [tuple(I.deref(x).data) for x in I.list_of(a[2])]
        return os_.execve(I, prog_, args, envp)
