"""Parser for the textual MIR printed by `rustc -Zunpretty=mir` (pinned nightly of this image).

Nothing of cicada is typed in by hand: every function body, constant, regex pattern and call target that the
symbolic executor sees comes out of this parser, which is fed the dump of /repo's *current* working tree.

Data model (plain tuples, cheap to interpret):
  place    = (local:int, proj:tuple)        proj items: ('deref',) ('field',n,ty) ('downcast',name)
                                                        ('index',local) ('cindex',n,from_end) ('subslice',a,b,from_end)
  operand  = ('copy',place) | ('move',place) | ('const',text,ty) | ('fn',path)
  rvalue   = ('use',op) ('ref',place,mut) ('rawref',place) ('binop',op,a,b) ('unop',op,a) ('cast',op,ty,kind)
             ('discr',place) ('tuple',[ops]) ('array',[ops]) ('repeat',op,n) ('adt',path,variant,[(name|None,op)])
             ('closure',span,[(name,op)]) ('len',place) ('copyderef',place) ('nullop',text)
  stmt     = ('assign',place,rvalue) ('setdiscr',place,n) ('nop',)
  term     = ('goto',bb) ('switch',op,[(val,bb)],otherwise) ('call',dest|None,callee,[ops],ret_bb|None,callee_op|None)
             ('drop',place,bb) ('assert',expected:bool,op,msg,[ops],bb) ('return',) ('unreachable',) ('resume',)
"""
import re

class ParseError(Exception):
    pass

class Fn:
    __slots__ = ('name', 'nargs', 'ret', 'types', 'blocks', 'span', 'argtypes', 'debug')
    def __init__(self, name, nargs, ret, types, blocks, argtypes, debug):
        self.name = name; self.nargs = nargs; self.ret = ret; self.types = types
        self.blocks = blocks; self.argtypes = argtypes; self.debug = debug
    def __repr__(self):
        return 'Fn(%s)' % self.name

_CHAR_LIT = re.compile(r"'(\\u\{[0-9a-fA-F]+\}|\\x[0-9a-fA-F]{2}|\\.|[^\\'])'")

def split_top(s, sep=','):
    """split at top-level separators, honouring (), [], {}, <> nesting, string and char literals."""
    out = []; depth = 0; cur = []; i = 0; n = len(s)
    while i < n:
        c = s[i]
        if c == '"':
            j = i + 1
            while j < n and s[j] != '"':
                if s[j] == '\\': j += 1
                j += 1
            cur.append(s[i:j + 1]); i = j + 1; continue
        if c == "'":
            m = _CHAR_LIT.match(s, i)
            if m:
                cur.append(m.group(0)); i = m.end(); continue
            cur.append(c); i += 1; continue
        if c in '([{':
            depth += 1
        elif c in ')]}':
            depth -= 1
        elif c == '<':
            # generic bracket unless it is an operator: ' < ' or '<=' or '<<'
            if not (i + 1 < n and s[i + 1] in ' =<' and i > 0 and s[i - 1] == ' '):
                depth += 1
        elif c == '>':
            if i > 0 and s[i - 1] in '-=':
                pass
            elif i > 0 and s[i - 1] == ' ' and i + 1 < n and s[i + 1] in ' =>':
                pass
            else:
                depth -= 1
        if c == sep and depth == 0:
            out.append(''.join(cur).strip()); cur = []
        else:
            cur.append(c)
        i += 1
    t = ''.join(cur).strip()
    if t: out.append(t)
    return out

def _match_close(s, i):
    """s[i] is an opening bracket; return index of matching close, honouring nesting and literals."""
    depth = 0; n = len(s)
    while i < n:
        c = s[i]
        if c == '"':
            j = i + 1
            while j < n and s[j] != '"':
                if s[j] == '\\': j += 1
                j += 1
            i = j + 1; continue
        if c == "'":
            m = _CHAR_LIT.match(s, i)
            if m: i = m.end(); continue
        if c in '([{': depth += 1
        elif c in ')]}':
            depth -= 1
            if depth == 0: return i
        i += 1
    raise ParseError('unbalanced: ' + s)

def _skip_type(s, i):
    """s[i:] starts a type that ends at the ')' closing the field projection; return index of that ')'."""
    depth = 0; n = len(s)
    while i < n:
        c = s[i]
        if c in '(<[{': depth += 1
        elif c in ')>]}':
            if c == '>' and s[i - 1] == '-':
                i += 1; continue
            if depth == 0: return i
            depth -= 1
        i += 1
    raise ParseError('type: ' + s)

_LOCAL = re.compile(r'_(\d+)')

def _place(s, i):
    """parse a place starting at s[i]; returns ((local, [proj]), next_index)"""
    if s[i] == '_':
        m = _LOCAL.match(s, i)
        loc = int(m.group(1)); proj = []; i = m.end()
    elif s.startswith('(*', i):
        (loc, proj), i = _place(s, i + 2)
        if s[i] != ')': raise ParseError('deref: ' + s)
        proj = proj + [('deref',)]; i += 1
    elif s[i] == '(':
        (loc, proj), i = _place(s, i + 1)
        if s.startswith(' as ', i):
            m = re.compile(r' as (\w+)\)').match(s, i)
            if not m: raise ParseError('downcast: ' + s)
            proj = proj + [('downcast', m.group(1))]; i = m.end()
        elif s[i] == '.':
            m = re.compile(r'\.(\d+): ').match(s, i)
            j = _skip_type(s, m.end())
            proj = proj + [('field', int(m.group(1)), s[m.end():j])]; i = j + 1
        else:
            raise ParseError('place: ' + s)
    else:
        raise ParseError('place: ' + s[i:])
    n = len(s)
    while i < n and s[i] == '[':
        m = re.compile(r'\[_(\d+)\]').match(s, i)
        if m:
            proj = proj + [('index', int(m.group(1)))]; i = m.end(); continue
        m = re.compile(r'\[(-?)(\d+) of (\d+)\]').match(s, i)
        if m:
            proj = proj + [('cindex', int(m.group(2)), m.group(1) == '-')]; i = m.end(); continue
        m = re.compile(r'\[(\d+):(-?)(\d+)\]').match(s, i)
        if m:
            proj = proj + [('subslice', int(m.group(1)), int(m.group(3)), m.group(2) == '-')]; i = m.end(); continue
        break
    return (loc, proj), i

def parse_place(s):
    s = s.strip()
    (loc, proj), i = _place(s, 0)
    if s[i:].strip():
        raise ParseError('place trailing: %r in %r' % (s[i:], s))
    return (loc, tuple(proj))

_INT_CONST = re.compile(r'^(-?\d+)_(u8|u16|u32|u64|u128|usize|i8|i16|i32|i64|i128|isize)$')
_FLOAT_CONST = re.compile(r'^(-?[0-9.eE+\-]+|-?inf|NaN)(f32|f64)$')

def parse_operand(s):
    s = s.strip()
    if s.startswith('no_retag '): s = s[9:]
    if s.startswith('copy '): return ('copy', parse_place(s[5:]))
    if s.startswith('move '): return ('move', parse_place(s[5:]))
    if s.startswith('const '):
        return ('const', s[6:].strip())
    # bare function item used as operand (fn pointer / callee argument)
    return ('fn', s)

BINOPS = {'Eq', 'Ne', 'Lt', 'Le', 'Gt', 'Ge', 'Add', 'Sub', 'Mul', 'Div', 'Rem', 'BitAnd', 'BitOr', 'BitXor', 'Shl', 'Shr',
          'AddWithOverflow', 'SubWithOverflow', 'MulWithOverflow', 'Offset', 'AddUnchecked', 'SubUnchecked',
          'MulUnchecked', 'ShlUnchecked', 'ShrUnchecked', 'Cmp'}
UNOPS = {'Not', 'Neg', 'PtrMetadata'}
_CALLLIKE = re.compile(r'^(\w+)\((.*)\)$', re.S)
_CAST = re.compile(r'^(.*) as (.+) \((\w+(?:\(.*\))?)\)$', re.S)

def parse_rvalue(s):
    s = s.strip()
    if s.startswith('no_retag '): s = s[9:]
    m = _CALLLIKE.match(s)
    if m:
        k = m.group(1)
        if k in BINOPS:
            a, b = split_top(m.group(2))
            return ('binop', k, parse_operand(a), parse_operand(b))
        if k in UNOPS:
            return ('unop', k, parse_operand(m.group(2)))
        if k == 'discriminant':
            return ('discr', parse_place(m.group(2)))
        if k == 'Len':
            return ('len', parse_place(m.group(2)))
        if k == 'CopyForDeref' or k == 'deref_copy':
            return ('copyderef', parse_place(m.group(2)))
        if k in ('SizeOf', 'AlignOf', 'OffsetOf', 'UbChecks', 'ContractChecks'):
            return ('nullop', s)
        if k == 'ShallowInitBox':
            return ('use', parse_operand(split_top(m.group(2))[0]))
    if s.startswith('deref_copy '):
        return ('copyderef', parse_place(s[11:]))
    if s.startswith('&mut '): return ('ref', parse_place(s[5:]), True)
    if s.startswith('&raw '): return ('rawref', parse_place(s.split(' ', 2)[2]))
    if s.startswith('&fake '): return ('ref', parse_place(s.split(' ', 2)[2]), False)
    if s.startswith('&') and (s[1:2] in '_(' ):
        return ('ref', parse_place(s[1:]), False)
    if s.startswith(('copy ', 'move ')):
        m2 = _CAST.match(s)
        if m2:
            return ('cast', parse_operand(m2.group(1)), m2.group(2), m2.group(3))
        return ('use', parse_operand(s))
    if s.startswith('const '):
        body = s[6:]
        if not body.startswith(('"', 'b"')):
            m2 = _CAST.match(s)
            if m2 and ' as ' in s and m2.group(3).split('(')[0] in (
                    'IntToInt', 'FloatToInt', 'IntToFloat', 'FloatToFloat', 'PointerCoercion', 'PtrToPtr', 'Transmute',
                    'PointerExposeProvenance', 'PointerWithExposedProvenance', 'FnPtrToPtr'):
                return ('cast', parse_operand(m2.group(1)), m2.group(2), m2.group(3))
        return ('use', parse_operand(s))
    if s == '()':
        return ('tuple', [])
    if s.startswith('(') and _match_close(s, 0) == len(s) - 1:
        return ('tuple', [parse_operand(x) for x in split_top(s[1:-1])])
    if s.startswith('[') and s.endswith(']'):
        inner = s[1:-1]
        parts = split_top(inner, ';')
        if len(parts) == 2:
            return ('repeat', parse_operand(parts[0]), parts[1].strip())
        return ('array', [parse_operand(x) for x in split_top(inner)])
    if s.startswith('{closure@') or s.startswith('{coroutine@'):
        j = _match_close(s, 0)
        span = s[1:j]
        rest = s[j + 1:].strip()
        fields = []
        if rest.startswith('{'):
            for f in split_top(rest[1:-1]):
                k, v = f.split(': ', 1)
                fields.append((k.strip(), parse_operand(v)))
        return ('closure', span, fields)
    # cast of a bare fn item:  path as fn(..) (PointerCoercion(..))
    m2 = _CAST.match(s)
    if m2 and m2.group(3).startswith(('PointerCoercion', 'ReifyFnPointer')):
        return ('cast', ('fn', m2.group(1).strip()), m2.group(2), m2.group(3))
    # aggregates: Path { f: a, .. } | Path::Variant(args) | Path::Variant
    if s.endswith('}'):
        # find the '{' that opens the field list: it is preceded by ' ' at depth 0
        depth = 0; pos = -1
        i = 0
        while i < len(s):
            c = s[i]
            if c in '(<[': depth += 1
            elif c in ')>]':
                if not (c == '>' and s[i - 1] == '-'): depth -= 1
            elif c == '{' and depth == 0 and i > 0 and s[i - 1] == ' ':
                pos = i; break
            elif c == '{': depth += 1
            elif c == '}': depth -= 1
            i += 1
        if pos > 0:
            fields = []
            for f in split_top(s[pos + 1:-1]):
                k, v = f.split(': ', 1)
                fields.append((k.strip(), parse_operand(v)))
            return ('adt', s[:pos].strip(), fields)
    if s.endswith(')'):
        # Path::Variant(args): find matching '(' of the last ')'
        depth = 0; i = len(s) - 1
        while i >= 0:
            c = s[i]
            if c == ')': depth += 1
            elif c == '(':
                depth -= 1
                if depth == 0: break
            i -= 1
        if i > 0:
            return ('adt', s[:i].strip(), [(None, parse_operand(x)) for x in split_top(s[i + 1:-1])])
    return ('adt', s, [])

_GOTO = re.compile(r'^goto -> bb(\d+)$')
_SWITCH = re.compile(r'^switchInt\((.*)\) -> \[(.*)\]$', re.S)
_DROP = re.compile(r'^drop\((.*)\) -> \[return: bb(\d+), unwind[^\]]*\]$', re.S)
_ASSERT = re.compile(r'^assert\((!?)(.*?), "((?:[^"\\]|\\.)*)"(.*)\) -> \[success: bb(\d+), unwind[^\]]*\]$', re.S)
_CALL_TAIL = re.compile(r' -> (?:\[return: bb(\d+), unwind[^\]]*\]|unwind [a-z()]+|bb\d+)$')

def parse_stmt(ln):
    if ln == 'return': return ('return',)
    if ln == 'unreachable': return ('unreachable',)
    if ln.startswith('resume') or ln.startswith('terminate') or ln.startswith('abort'): return ('resume',)
    if ln == 'nop' or ln.startswith(('StorageLive', 'StorageDead', 'FakeRead', 'PlaceMention', 'Retag', 'AscribeUserType',
                                     'Coverage', 'ConstEvalCounter', 'Deinit', 'assume(', 'BackwardIncompatibleDropHint')):
        return ('nop',)
    m = _GOTO.match(ln)
    if m: return ('goto', int(m.group(1)))
    m = _SWITCH.match(ln)
    if m:
        tg = []; other = None
        for part in split_top(m.group(2)):
            k, v = part.rsplit(': ', 1)
            b = int(v[2:])
            if k == 'otherwise': other = b
            else: tg.append((int(k), b))
        return ('switch', parse_operand(m.group(1)), tg, other)
    m = _DROP.match(ln)
    if m: return ('drop', parse_place(m.group(1)), int(m.group(2)))
    if ln.startswith('assert('):
        m = _ASSERT.match(ln)
        if not m: raise ParseError('assert: ' + ln)
        extra = [parse_operand(x) for x in split_top(m.group(4).lstrip(', '))] if m.group(4).strip(', ') else []
        return ('assert', m.group(1) != '!', parse_operand(m.group(2)), m.group(3), extra, int(m.group(5)))
    m = re.match(r'^discriminant\((.*)\) = (\d+)$', ln)
    if m: return ('setdiscr', parse_place(m.group(1)), int(m.group(2)))
    mt = _CALL_TAIL.search(ln)
    if mt:
        head = ln[:mt.start()]
        ret_bb = int(mt.group(1)) if mt.group(1) else None      # `-> bbN` alone: diverging call, bbN is the unwind target
        # head is "<place> = <callee>(<args>)"
        eq = head.index(' = ')
        # place may itself contain ' = '? no.
        dest = parse_place(head[:eq])
        call = head[eq + 3:]
        if not call.endswith(')'): raise ParseError('call: ' + ln)
        # matching '(' for the final ')'
        depth = 0; i = len(call) - 1
        instr = False
        # scan forward to find arg list start robustly (strings may contain parens)
        # approach: find top-level '(' positions by forward scan and take the last one at depth 0
        j = 0; depth = 0; last_open = -1; n = len(call)
        while j < n:
            c = call[j]
            if c == '"':
                k = j + 1
                while k < n and call[k] != '"':
                    if call[k] == '\\': k += 1
                    k += 1
                j = k + 1; continue
            if c == "'":
                mm = _CHAR_LIT.match(call, j)
                if mm: j = mm.end(); continue
            if c in '([{':
                if c == '(' and depth == 0: last_open = j
                depth += 1
            elif c in ')]}': depth -= 1
            elif c == '<':
                depth += 1
            elif c == '>':
                if call[j - 1] not in '-=': depth -= 1
            j += 1
        if last_open < 0: raise ParseError('call args: ' + ln)
        callee = call[:last_open].strip()
        argtxt = call[last_open + 1:-1]
        args = [parse_operand(a) for a in split_top(argtxt)] if argtxt.strip() else []
        callee_op = None
        if callee.startswith(('move _', 'copy _')):
            callee_op = parse_operand(callee)
        return ('call', dest, callee, args, ret_bb, callee_op)
    if ' = ' in ln:
        eq = ln.index(' = ')
        return ('assign', parse_place(ln[:eq]), parse_rvalue(ln[eq + 3:]))
    raise ParseError('stmt: ' + ln)

_HEAD_FN = re.compile(r'^fn (.+?)\((_1: .*|)\) -> (.+?) \{$', re.S)
_HEAD_CONST = re.compile(r'^(?:const|static(?: mut)?) (.+?): (.+?) = \{$', re.S)
_LET = re.compile(r'^let (?:mut )?_(\d+): (.+);$', re.S)
_BB = re.compile(r'^bb(\d+)(?: \(cleanup\))?: \{$')
_DEBUG = re.compile(r'^debug (\S+) => (.+);$')

def _head_const(head):
    m = re.match(r'^(?:const|static(?: mut)?) ', head)
    if not m or not head.rstrip().endswith('= {'): return None
    rest = head[m.end():].rstrip()[:-3].rstrip()
    depth = 0
    for i, c in enumerate(rest):
        if c in '<([': depth += 1
        elif c in '>)]' and not (c == '>' and rest[i - 1] == '-'): depth -= 1
        elif depth == 0 and rest.startswith(': ', i):
            return rest[:i], rest[i + 2:]
    return None

class Module:
    """All bodies of one dump; bodies are parsed lazily."""
    def __init__(self, text):
        self.text = text
        self.raw = {}        # name -> (header, bodytext)
        self.order = []
        self.fns = {}
        self.allocs = {}     # "allocN" -> bytes (only for byte-string allocations printed after bodies)
        self._index()

    def _index(self):
        txt = self.text
        starts = [m.start() for m in re.finditer(r'^(?:fn |const |static )', txt, re.M)]
        starts.append(len(txt))
        for a, b in zip(starts, starts[1:]):
            chunk = txt[a:b]
            nl = chunk.find('{\n')
            if nl < 0:
                # one-line const:  const VERSION: &str = const "1.1.2";
                m = re.match(r'^const (.+?): (.+?) = const (.+);\s*$', chunk.strip(), re.S)
                if m: self.raw[m.group(1)] = ('constval', m.group(2), m.group(3))
                continue
            head = chunk[:nl + 1]
            end = chunk.find('\n}\n')
            body = chunk[nl + 2:end if end >= 0 else len(chunk)]
            tail = chunk[end + 3:] if end >= 0 else ''
            m = _HEAD_FN.match(head)
            if m:
                name = m.group(1)
                if name in self.raw:
                    # macro-generated impls (lazy_static) print identical def paths: keep every body
                    k = 2
                    while '%s#dup%d' % (name, k) in self.raw: k += 1
                    name = '%s#dup%d' % (name, k)
                self.raw[name] = ('fn', m.group(2), m.group(3), body)
                self.order.append(name)
            else:
                m = _head_const(head)
                if not m:
                    continue
                name = m[0]
                self.raw[name] = ('const', '', m[1], body)
                self.order.append(name)
            if 'alloc' in tail:
                self._allocs(tail)

    def _allocs(self, tail):
        # "allocN (size: K, align: A) {\n    0x00 │ 32 30 ... │ text\n}"  or single-line "    32 30 │ .."
        for m in re.finditer(r'^(alloc\d+) \((?:static: [^,]+, )?size: (\d+), align: \d+\) \{(.*?)^\}', tail, re.M | re.S):
            name, size, body = m.group(1), int(m.group(2)), m.group(3)
            bs = bytearray()
            ok = True
            for ln in body.strip('\n').split('\n'):
                parts = ln.split('│')
                hexpart = parts[1] if len(parts) >= 3 else parts[0]
                for tok in hexpart.split():
                    if re.fullmatch(r'[0-9a-f]{2}', tok): bs.append(int(tok, 16))
                    elif tok.startswith('0x'): continue
                    else: ok = False
            if ok and len(bs) == size:
                self.allocs[name] = bytes(bs)

    def names(self):
        return self.order

    def fn(self, name):
        f = self.fns.get(name)
        if f is not None: return f
        r = self.raw.get(name)
        if r is None: return None
        if r[0] == 'constval':
            return None
        kind, argstr, ret, body = r
        argtypes = []
        if argstr:
            for a in split_top(argstr):
                k, t = a.split(': ', 1)
                argtypes.append(t)
        f = self._parse_body(name, len(argtypes), ret, body, argtypes)
        self.fns[name] = f
        return f

    def _parse_body(self, name, nargs, ret, body, argtypes):
        types = {}
        for i, t in enumerate(argtypes): types[i + 1] = t
        blocks = {}
        debug = {}
        cur = None
        lines = body.split('\n')
        i = 0; n = len(lines)
        while i < n:
            ln = lines[i].strip(); i += 1
            if not ln or ln.startswith(('scope ', '}', '//')): continue
            if cur is None or ln.startswith(('let ', 'debug ', 'bb')):
                if ln.startswith('let '):
                    while not ln.endswith(';'):
                        ln += ' ' + lines[i].strip(); i += 1
                    m = _LET.match(ln)
                    if m: types[int(m.group(1))] = m.group(2)
                    continue
                if ln.startswith('debug '):
                    m = _DEBUG.match(ln)
                    if m: debug[m.group(1)] = m.group(2)
                    continue
                m = _BB.match(ln)
                if m:
                    cur = []; blocks[int(m.group(1))] = cur; continue
            if cur is None: continue
            while not ln.endswith(';'):
                if i >= n: raise ParseError('unterminated stmt in %s: %s' % (name, ln))
                ln += ' ' + lines[i].strip(); i += 1
            cur.append(parse_stmt(ln[:-1]))
        return Fn(name, nargs, ret, types, blocks, argtypes, debug)

def load(path):
    with open(path) as f:
        return Module(f.read())

if __name__ == '__main__':
    import sys, collections
    mod = load(sys.argv[1])
    bad = 0
    for nm in mod.names():
        try:
            mod.fn(nm)
        except Exception as e:
            bad += 1
            print('FAIL', nm[:100], '::', repr(e)[:300])
    print('bodies', len(mod.names()), 'failed', bad, 'allocs', len(mod.allocs))
