"""Driver for the native replay tool (/verif/native, built against /repo with --cfg cicada_verif)."""
import json, os, select, subprocess, time

BIN = os.path.join(os.path.dirname(os.path.dirname(os.path.abspath(__file__))), 'build/native/debug/vnative')

class NativeHang(Exception):
    pass

class Native:
    def __init__(self, cwd=None, env=None, timeout=10.0, binary=BIN):
        self.cwd = cwd; self.timeout = timeout; self.binary = binary
        self.env = dict(env) if env is not None else {'PATH': '/usr/bin:/bin', 'HOME': '/nonexistent-home', 'LANG': 'C.UTF-8'}
        self.p = None
        self.calls = 0
    def start(self):
        self.p = subprocess.Popen([self.binary], stdin=subprocess.PIPE, stdout=subprocess.PIPE, stderr=subprocess.DEVNULL,
                                  cwd=self.cwd, env=self.env, bufsize=0)
        self.buf = b''
    def close(self):
        if self.p is not None:
            try: self.p.kill()
            except Exception: pass
            self.p.wait()
            self.p = None
    def call(self, name, *args):
        """args: python str; returns parsed JSON.  Raises NativeHang on timeout (process is restarted)."""
        if self.p is None or self.p.poll() is not None: self.start()
        self.calls += 1
        line = name + ''.join('\t' + a.encode('utf-8', 'surrogatepass').hex() for a in args) + '\n'
        try:
            self.p.stdin.write(line.encode()); self.p.stdin.flush()
        except BrokenPipeError:
            self.close(); return {'crash': 'broken pipe'}
        deadline = time.time() + self.timeout
        fd = self.p.stdout.fileno()
        while True:
            nl = self.buf.find(b'\n')
            if nl >= 0:
                out = self.buf[:nl]; self.buf = self.buf[nl + 1:]
                # anything cicada itself prints to stdout is skipped; results carry a marker
                k = out.find(b'@@RESULT@@')
                if k >= 0:
                    return json.loads(out[k + 10:].decode('utf-8', 'replace'))
                continue
            r, _, _ = select.select([fd], [], [], max(0.0, deadline - time.time()))
            if not r:
                self.close()
                raise NativeHang(name)
            chunk = os.read(fd, 65536)
            if not chunk:
                rc = self.p.poll()
                self.close()
                return {'crash': rc}
            self.buf += chunk
