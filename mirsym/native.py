"""Driver for the native replay tool (/verif/native, built against /repo with --cfg cicada_verif)."""
import json, os, select, subprocess, time

BIN = '/verif/build/native/debug/vnative'

class NativeHang(Exception):
    pass

class Native:
    def __init__(self, cwd=None, env=None, timeout=10.0, binary=BIN):
        self.cwd = cwd; self.timeout = timeout; self.binary = binary
        self.env = dict(env) if env is not None else {'PATH': '/usr/bin:/bin', 'HOME': '/nonexistent-home', 'LANG': 'C.UTF-8'}
        self.p = None
        self.calls = 0
    def start(self):
        self.p = subprocess.Popen([self.binary], stdin=subprocess.PIPE, stdout=subprocess.PIPE, stderr=subprocess.DEVNULL,
                                  cwd=self.cwd, env=self.env)
    def close(self):
        if self.p is not None:
            try: self.p.kill()
            except Exception: pass
            self.p.wait()
            self.p = None
    def call(self, name, *args):
        """args: python str; returns parsed JSON.  Raises NativeHang on timeout (process is restarted)."""
        if self.p is None or self.p.poll() is not None: self.start()
        self.calls += 1
        line = name + ''.join('\t' + a.encode('utf-8', 'surrogatepass').hex() for a in args) + '\n'
        try:
            self.p.stdin.write(line.encode()); self.p.stdin.flush()
        except BrokenPipeError:
            self.close(); return {'crash': 'broken pipe'}
        r, _, _ = select.select([self.p.stdout], [], [], self.timeout)
        if not r:
            self.close()
            raise NativeHang(name)
        out = self.p.stdout.readline()
        if not out:
            rc = self.p.poll()
            self.close()
            return {'crash': rc}
        return json.loads(out.decode('utf-8', 'replace'))
