"""engine self-test run by setup: concrete inputs through the interpreter vs the native build"""
import native, explore, hlib
from engine import lit, Interp
from ctx import Ctx

LINES = ["ls", "echo 'a b' | wc -l", 'echo "x y" z', "a && b || c ; d # e", "echo \\$HOME \\| x", "echo $(ls -l) `date`",
         "FOO=1 BAR=2 cmd > out 2>&1", "echo a\\>b 'c d'\"e f\"", "ls | | wc", "echo 'unterminated", "1 + 2 * 3", "echo {a,b}{1..3}",
         "  spaced   out  ", "echo \"a\\\"b\"", "(ls -l)", "echo ${HOME}x$?", "x='a b' cmd", "echo é ü 你好 | cat"]

def run(prog, log):
    nat = native.Native()
    bad = 0; n = 0
    for line in LINES:
        for fn, nm in (('parse_line', 'parse_line'), ('line_to_cmds', 'line_to_cmds')):
            I = Interp(Ctx(), prog)
            r = I.call_fn(fn, [lit(line)])
            m = None
            class M:
                def eval(self, v, model_completion=True): return v
            got = explore.conc(M(), r)
            if fn == 'parse_line':
                got = [[list(t) for t in got['LineInfo'][0]], got['LineInfo'][1]]
            want = nat.call(nm, line)
            n += 1
            if got != want:
                bad += 1; log('selftest mismatch', fn, repr(line), got, want)
    nat.close()
    log('selftest: %d concrete comparisons, %d mismatches' % (n, bad))
    return bad == 0
