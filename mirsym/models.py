"""Library models: every call that leaves the crate's MIR is interpreted by one of these (trusted base, validated
per explored leaf against the native build).  Keys are canonical callee names (program.strip_generics)."""
import re
import z3
from engine import (RString, RVec, Slice, Agg, Ref, RMap, FnItem, Opaque, AutoFields, UNIT, NONE, SOME, OK, ERR, TUP,
                    RustPanic, Unsupported, ProcessExit, is_sym, lit, str_eq, ch_eq, b_not, b_and, b_or, deep_clone,
                    copy_val, ch_is_whitespace, ch_in_range, wrap, INT_TYPES, show_str)
from program import generic_args
import rx

STOP = object()

# ------------------------------------------------------------------------------------------------
# iterators: python objects with next(I) -> value | STOP   (and next_back for the double ended ones)
class It:
    def next(self, I): raise Unsupported('next of ' + type(self).__name__)
    def next_back(self, I): raise Unsupported('next_back of ' + type(self).__name__)
    def clone(self): raise Unsupported('clone of ' + type(self).__name__)
class SliceIter(It):
    def __init__(self, l, lo, hi, by_ref=True): self.l = l; self.lo = lo; self.hi = hi; self.by_ref = by_ref
    def next(self, I):
        if self.lo >= self.hi: return STOP
        i = self.lo; self.lo += 1
        return Ref(self.l, i) if self.by_ref else self.l[i]
    def next_back(self, I):
        if self.lo >= self.hi: return STOP
        self.hi -= 1
        return Ref(self.l, self.hi) if self.by_ref else self.l[self.hi]
    def clone(self): return SliceIter(self.l, self.lo, self.hi, self.by_ref)
class CharsIter(It):
    def __init__(self, s, lo=0, hi=None): self.s = s; self.lo = lo; self.hi = len(s) if hi is None else hi
    def next(self, I):
        if self.lo >= self.hi: return STOP
        c = self.s[self.lo]; self.lo += 1; return c
    def next_back(self, I):
        if self.lo >= self.hi: return STOP
        self.hi -= 1; return self.s[self.hi]
    def clone(self): return CharsIter(self.s, self.lo, self.hi)
class CharIndices(It):
    def __init__(self, I, s):
        self.items = []; pos = 0
        for c in s:
            self.items.append((pos, c)); pos += I.char_width(c)
        self.i = 0
    def next(self, I):
        if self.i >= len(self.items): return STOP
        p, c = self.items[self.i]; self.i += 1
        return TUP(p, c)
    def next_back(self, I):
        if self.i >= len(self.items): return STOP
        p, c = self.items.pop(); return TUP(p, c)
class ListIter(It):
    """owning iterator over python values"""
    def __init__(self, items): self.items = list(items); self.i = 0
    def next(self, I):
        if self.i >= len(self.items): return STOP
        v = self.items[self.i]; self.i += 1; return v
    def next_back(self, I):
        if self.i >= len(self.items): return STOP
        return self.items.pop()
    def clone(self):
        r = ListIter(self.items[self.i:]); return r
class Enumerate(It):
    def __init__(self, inner): self.inner = inner; self.n = 0
    def next(self, I):
        v = self.inner.next(I)
        if v is STOP: return STOP
        r = TUP(self.n, v); self.n += 1; return r
class Rev(It):
    def __init__(self, inner): self.inner = inner
    def next(self, I): return self.inner.next_back(I)
    def next_back(self, I): return self.inner.next(I)
class Map(It):
    def __init__(self, inner, f): self.inner = inner; self.f = f
    def next(self, I):
        v = self.inner.next(I)
        if v is STOP: return STOP
        return I.call_closure(self.f, [TUP(v)] if False else [v])
    def next_back(self, I):
        v = self.inner.next_back(I)
        if v is STOP: return STOP
        return I.call_closure(self.f, [v])
class Filter(It):
    def __init__(self, inner, f): self.inner = inner; self.f = f
    def next(self, I):
        while True:
            v = self.inner.next(I)
            if v is STOP: return STOP
            cell = [v]
            r = I.call_closure(self.f, [Ref(cell, 0)])
            if I.branch(r) if is_sym(r) else r: return v
class Skip(It):
    def __init__(self, inner, n): self.inner = inner; self.n = n
    def next(self, I):
        while self.n > 0:
            self.n -= 1
            if self.inner.next(I) is STOP: return STOP
        return self.inner.next(I)
class Take(It):
    def __init__(self, inner, n): self.inner = inner; self.n = n
    def next(self, I):
        if self.n <= 0: return STOP
        self.n -= 1
        return self.inner.next(I)
class Flatten(It):
    def __init__(self, inner): self.inner = inner; self.cur = None
    def next(self, I):
        while True:
            v = self.inner.next(I)
            if v is STOP: return STOP
            v = I.deref(v)
            if isinstance(v, Agg) and v.tag in ('Some', 'Ok'): return v.f[0]
            if isinstance(v, Agg) and v.tag in ('None', 'Err'): continue
            raise Unsupported('flatten of %r' % (v,))
class RangeIt(It):
    def __init__(self, lo, hi): self.lo = lo; self.hi = hi
    def next(self, I):
        if is_sym(self.lo) or is_sym(self.hi):
            c = z3.ULT(self.lo, self.hi) if True else None
            if not I.branch(c): return STOP
        elif self.lo >= self.hi: return STOP
        v = self.lo; self.lo = self.lo + 1; return v
class SplitIt(It):
    """str::split / rsplit with a char, &str or &[char] pattern; decisions fork"""
    def __init__(self, s, pred, patlen=1, rev=False, pat=None):
        self.s = s; self.pred = pred; self.done = False; self.rev = rev; self.patlen = patlen; self.pat = pat
    def _match_at(self, I, i):
        if self.pat is not None:
            if i + len(self.pat) > len(self.s): return False
            c = str_eq(tuple(self.s[i:i + len(self.pat)]), self.pat)
            return I.branch(c) if is_sym(c) else c
        c = self.pred(self.s[i])
        return I.branch(c) if is_sym(c) else c
    def next(self, I):
        if self.done: return STOP
        s = self.s; n = len(s)
        if not self.rev:
            i = 0
            while i < n:
                if self._match_at(I, i):
                    piece = s[:i]; self.s = s[i + self.patlen:]; return tuple(piece)
                i += 1
            self.done = True
            return tuple(s)
        i = n - self.patlen
        while i >= 0:
            if self._match_at(I, i):
                piece = s[i + self.patlen:]; self.s = s[:i]; return tuple(piece)
            i -= 1
        self.done = True
        return tuple(s)
    def next_back(self, I):
        self.rev = not self.rev
        try: return self.next(I)
        finally: self.rev = not self.rev

def opt(v): return NONE() if v is STOP else SOME(v)

def to_iter(I, v):
    """IntoIterator::into_iter on a runtime value"""
    d = v
    by_ref = isinstance(v, Ref)
    d = I.deref(v)
    if isinstance(d, It): return d
    if isinstance(d, RVec):
        if by_ref: return SliceIter(d.v, 0, len(d.v))
        return ListIter(d.v)
    if isinstance(d, Slice): return SliceIter(d.l, d.lo, d.hi)
    if isinstance(d, RMap):
        return map_iter(I, d, by_ref or True)
    if isinstance(d, Agg) and d.tag == 'Range': return RangeIt(d.f[0], d.f[1])
    if isinstance(d, Agg) and d.tag in ('Some', 'None'):
        return ListIter(d.f)
    raise Unsupported('into_iter of %r' % (d,))

def map_iter(I, m, by_ref=True):
    """HashMap iteration order is unspecified: for <= 3 entries the order is the solver's choice (every
    permutation is explored); beyond that one arbitrary fixed order is used (stated in the evidence)."""
    items = list(m.items)
    n = len(items)
    if 1 < n <= 3:
        order = []
        rest = list(range(n))
        while len(rest) > 1:
            k = I.choose('maporder%d_%d' % (I.fresh_id(), len(rest)), len(rest))
            order.append(rest.pop(k))
        order += rest
        items = [items[i] for i in order]
    if m.kind == 'set':
        return ListIter([Ref(it, 0) for it in items])
    return ListIter([TUP(Ref(it, 0), Ref(it, 1)) for it in items])

def truthy(I, c):
    return I.branch(c) if is_sym(c) else bool(c)

# ------------------------------------------------------------------------------------------------
def int_to_chars(I, v, bits=None, signed=True):
    """Display of an integer; a symbolic value forks on sign and number of digits, digits stay symbolic"""
    if not is_sym(v):
        return [ord(c) for c in str(v)]
    bits = v.size()
    # few feasible values: fork on them (cheap concrete formatting) instead of symbolic division by powers of ten
    wide = z3.is_const(v) and v.decl().kind() == z3.Z3_OP_UNINTERPRETED and v.decl().name() in getattr(I, 'wide_ints', ())
    vals = None if wide else I.ctx.values_upto(v, 24)
    if vals is not None:
        for x in vals[:-1]:
            if I.branch(v == z3.BitVecVal(x, bits)):
                return [ord(c) for c in str(wrap(x, bits, signed))]
        return [ord(c) for c in str(wrap(vals[-1], bits, signed))]
    out = []
    if signed and I.branch(v < 0):
        out.append(45)
        # magnitude as unsigned of same width (MIN handled: -MIN wraps to MIN, read unsigned)
        mag = -v
    else:
        mag = v
    nd = 1
    p = 10
    maxd = len(str((1 << bits) - 1))
    while nd < maxd and not I.branch(z3.ULT(mag, z3.BitVecVal(p, bits))):
        nd += 1; p *= 10
    digs = []
    for k in range(nd - 1, -1, -1):
        d = z3.URem(z3.UDiv(mag, z3.BitVecVal(10 ** k, bits)), z3.BitVecVal(10, bits))
        d32 = z3.ZeroExt(32 - bits, d) if bits < 32 else z3.Extract(31, 0, d)
        digs.append(z3.simplify(d32 + 48))
    return out + digs

def display(I, v, spec=None):
    """chars of `{}` for the runtime value v"""
    d = I.deref(v)
    if isinstance(d, (RString, tuple)): return list(I.str_of(d))
    if isinstance(d, bool): return list(lit('true' if d else 'false'))
    if isinstance(d, int): return [ord(c) for c in str(d)]
    if isinstance(d, float):
        if type(d).__name__ == 'SignFloat': raise Unsupported('formatting a symbolic integer converted to a float')
        return [ord(c) for c in fmt_float(d)]
    if is_sym(d):
        if z3.is_bool(d):
            return list(lit('true' if I.branch(d) else 'false'))
        return int_to_chars(I, d)
    if isinstance(d, Agg):
        if d.tag == 'Cow': return list(I.str_of(d.f[0]))
        if d.tag == 'char': return [d.f[0]]
        if d.tag == 'Errno': return list(lit('errno'))
        if isinstance(d.tag, str) and d.tag.startswith('E') and d.tag.isupper(): return list(lit(d.tag + ': os error'))
        f = I.prog.by_key.get('<%s as Display>::fmt' % d.tag)
        if f:
            return fmt_via_impl(I, f, v)
    if isinstance(d, Opaque):
        if d.what in ('PathBuf', 'Path', 'OsString', 'PathDisplay'): return list(d.data)
        if d.what == 'io::Error': return list(lit('os error'))
        if d.what in ('VarError', 'ParseIntError', 'ParseFloatError', 'Errno', 'regex::Error', 'DateTime', 'GlobError',
                      'PatternError', 'pest::Error', 'rusqlite::Error', 'Utf8Error'):
            return list(lit('<' + d.what + '>'))
    raise Unsupported('display of %r' % (d,))

def fmt_float(x):
    """Rust's Display for f64"""
    if x != x: return 'NaN'
    if x == float('inf'): return 'inf'
    if x == float('-inf'): return '-inf'
    if x == int(x) and abs(x) < 1e16:
        s = str(int(x))
        if x == 0 and str(x).startswith('-'): s = '-0'
        return s
    r = repr(x)
    if 'e' in r or 'E' in r:
        # expand exponent form exactly
        from decimal import Decimal
        r = format(Decimal(r), 'f')
    return r

def fmt_via_impl(I, defname, v):
    f = I.prog.module.fn(defname)
    buf = RString()
    cell = [Opaque('Formatter', buf)]
    I.exec_fn(f, [v if isinstance(v, Ref) else Ref([v], 0), Ref(cell, 0)])
    return list(buf.c)

def debug_fmt(I, v):
    d = I.deref(v)
    if isinstance(d, (RString, tuple)):
        out = [34]
        for c in I.str_of(d):
            if is_sym(c):
                # escaping depends on the character; debug output is only ever logged or printed
                out.append(c)
            elif c in (34, 92): out += [92, c]
            elif c == 10: out += [92, 110]
            elif c == 9: out += [92, 116]
            elif c == 13: out += [92, 114]
            elif c == 39: out.append(c)
            else: out.append(c)
        return out + [34]
    if isinstance(d, (bool, int, float)) or is_sym(d): return display(I, d)
    if isinstance(d, RVec) or isinstance(d, Slice):
        out = [91]
        for i, x in enumerate(I.list_of(d)):
            if i: out += [44, 32]
            out += debug_fmt(I, x)
        return out + [93]
    if isinstance(d, Agg) and d.tag is None:
        out = [40]
        for i, x in enumerate(d.f):
            if i: out += [44, 32]
            out += debug_fmt(I, x)
        return out + [41]
    if isinstance(d, Agg) and d.tag in ('Some', 'Ok', 'Err'):
        return list(lit(d.tag + '(')) + debug_fmt(I, d.f[0]) + [41]
    if isinstance(d, Agg) and d.tag == 'None': return list(lit('None'))
    if isinstance(d, Opaque): return list(lit('<' + d.what + '>'))
    return list(lit('<debug>'))

def install(prog):
    M = prog.model
    _id = [0]

    # ---------------- String / str ---------------------------------------------------------------
    @M('String::new')
    def _(I, a, c): return RString()
    @M('<String as Deref>::deref', 'String::as_str', '<str as ToString>::to_string#ref', '<String as Borrow>::borrow',
       '<String as AsRef>::as_ref', 'String::as_mut_str', '<Cow as Deref>::deref', '<PathBuf as Deref>::deref#x')
    def _(I, a, c): return I.str_of(a[0])
    @M('<str as ToString>::to_string', '<String as ToString>::to_string', '<String as From>::from', '<str as ToOwned>::to_owned',
       '<String as Clone>::clone', '<Cow as ToString>::to_string', '<&str as ToString>::to_string', 'String::from',
       '<&String as ToString>::to_string', '<Cow as Into>::into#s', 'Cow::into_owned', '<str as Into>::into#s')
    def _(I, a, c): return RString(I.str_of(a[0]))
    @M('must_use')
    def _(I, a, c): return a[0]
    @M('<char as ToString>::to_string')
    def _(I, a, c): return RString([I.deref(a[0])])
    @M('<i32 as ToString>::to_string', '<i64 as ToString>::to_string', '<usize as ToString>::to_string')
    def _(I, a, c): return RString(display(I, a[0]))
    @M('String::push')
    def _(I, a, c): I.deref(a[0]).c.append(a[1]); return UNIT
    @M('String::push_str')
    def _(I, a, c): I.deref(a[0]).c.extend(I.str_of(a[1])); return UNIT
    @M('String::is_empty', '<impl str>::is_empty')
    def _(I, a, c): return len(I.str_of(a[0])) == 0
    @M('String::len', '<impl str>::len')
    def _(I, a, c): return I.byte_len(I.str_of(a[0]))
    @M('String::clear')
    def _(I, a, c): I.deref(a[0]).c[:] = []; return UNIT
    @M('String::pop')
    def _(I, a, c):
        s = I.deref(a[0])
        return SOME(s.c.pop()) if s.c else NONE()
    @M('String::remove')
    def _(I, a, c):
        s = I.deref(a[0]); idx = I.concretize(a[1])
        # idx is a byte index and must lie on a char boundary
        pos = 0
        for k, ch in enumerate(s.c):
            if pos == idx:
                return s.c.pop(k)
            pos += I.char_width(ch)
            if pos > idx: I.panic('byte index is not a char boundary')
        I.panic('cannot remove a char from the end of a string')
    @M('String::truncate')
    def _(I, a, c):
        s = I.deref(a[0]); n = I.concretize(a[1])
        pos = 0
        for k, ch in enumerate(s.c):
            if pos == n:
                del s.c[k:]; return UNIT
            pos += I.char_width(ch)
            if pos > n: I.panic('truncate: not a char boundary')
        return UNIT
    @M('String::as_bytes', '<impl str>::as_bytes', 'String::into_bytes')
    def _(I, a, c):
        return Opaque('bytes', I.str_of(a[0]))
    @M('<impl str>::chars')
    def _(I, a, c): return CharsIter(I.str_of(a[0]))
    @M('<impl str>::char_indices')
    def _(I, a, c): return CharIndices(I, I.str_of(a[0]))
    @M('<impl str>::to_string', '<impl str>::to_owned')
    def _(I, a, c): return RString(I.str_of(a[0]))

    def eq_model(neg):
        def f(I, a, c):
            x = I.deref(a[0]); y = I.deref(a[1])
            r = generic_eq(I, x, y)
            return b_not(r) if neg else r
        return f
    for k in ('<String as PartialEq>', '<&String as PartialEq>', '<&str as PartialEq>', '<str as PartialEq>', '<Cow as PartialEq>',
              '<&&str as PartialEq>', '<char as PartialEq>', '<&mut String as PartialEq>', '<_ as PartialEq>'):
        prog.models[k + '::eq'] = eq_model(False)
        prog.models[k + '::ne'] = eq_model(True)

    def pat_pred(I, p):
        """str pattern -> ('char', pred) | ('str', tuple)"""
        d = I.deref(p)
        if isinstance(d, (int,)) or is_sym(d):
            return ('char', lambda ch: ch_eq(ch, d))
        if isinstance(d, (RString, tuple)):
            return ('str', I.str_of(d))
        if isinstance(d, (RVec, Slice)):
            cs = I.list_of(d)
            return ('char', lambda ch: b_or(*[ch_eq(ch, x) for x in cs]))
        if isinstance(d, Agg) and isinstance(d.tag, tuple) and d.tag[0] == 'closure':
            return ('char', lambda ch: I.call_closure(d, [ch]))
        if isinstance(d, FnItem):
            return ('char', lambda ch: I.call_closure(d, [ch]))
        raise Unsupported('pattern %r' % (d,))

    @M('<impl str>::starts_with')
    def _(I, a, c):
        s = I.str_of(a[0]); k, p = pat_pred(I, a[1])
        if k == 'char': return p(s[0]) if s else False
        if len(p) > len(s): return False
        return str_eq(s[:len(p)], p)
    @M('<impl str>::ends_with')
    def _(I, a, c):
        s = I.str_of(a[0]); k, p = pat_pred(I, a[1])
        if k == 'char': return p(s[-1]) if s else False
        if len(p) > len(s): return False
        return str_eq(s[len(s) - len(p):], p) if p else True
    @M('<impl str>::contains')
    def _(I, a, c):
        s = I.str_of(a[0]); k, p = pat_pred(I, a[1])
        if k == 'char': return b_or(*[p(ch) for ch in s])
        if not p: return True
        return b_or(*[str_eq(s[i:i + len(p)], p) for i in range(len(s) - len(p) + 1)])
    @M('<impl str>::find')
    def _(I, a, c):
        s = I.str_of(a[0]); k, p = pat_pred(I, a[1])
        pos = 0
        for i in range(len(s)):
            if k == 'char': hit = p(s[i])
            else: hit = str_eq(s[i:i + len(p)], p) if i + len(p) <= len(s) else False
            if truthy(I, hit): return SOME(pos)
            pos += I.char_width(s[i])
        if k == 'str' and not p: return SOME(pos)
        return NONE()
    @M('<impl str>::rfind')
    def _(I, a, c):
        s = I.str_of(a[0]); k, p = pat_pred(I, a[1])
        for i in range(len(s) - 1, -1, -1):
            if k == 'char': hit = p(s[i])
            else: hit = str_eq(s[i:i + len(p)], p) if i + len(p) <= len(s) else False
            if truthy(I, hit):
                pos = 0
                for ch in s[:i]: pos += I.char_width(ch)
                return SOME(pos)
        if k == 'str' and not p:
            pos = 0
            for ch in s: pos += I.char_width(ch)
            return SOME(pos)
        return NONE()
    @M('<impl str>::rsplitn', '<impl str>::splitn')
    def _(I, a, c):
        n = I.concretize(a[1]); s = I.str_of(a[0]); k, p = pat_pred(I, a[2])
        rev = 'rsplitn' in c
        seq = list(s)[::-1] if rev else list(s)
        if k != 'char': raise Unsupported('splitn with str pattern')
        parts = []; cur = []
        for idx, ch in enumerate(seq):
            if len(parts) < n - 1 and truthy(I, p(ch)):
                parts.append(cur); cur = []
            else: cur.append(ch)
        parts.append(cur)
        if rev: parts = [x[::-1] for x in parts]
        return ListIter([tuple(x) for x in parts])
    def trim_model(left, right, pred_of=None):
        def f(I, a, c):
            s = I.str_of(a[0])
            if pred_of is None: pred = ch_is_whitespace
            else:
                k, p = pat_pred(I, a[1])
                if k != 'char': raise Unsupported('trim_matches with str pattern')
                pred = p
            lo = 0; hi = len(s)
            if left:
                while lo < hi and truthy(I, pred(s[lo])): lo += 1
            if right:
                while hi > lo and truthy(I, pred(s[hi - 1])): hi -= 1
            return s[lo:hi]
        return f
    prog.models['<impl str>::trim'] = trim_model(True, True)
    prog.models['<impl str>::trim_start'] = trim_model(True, False)
    prog.models['<impl str>::trim_end'] = trim_model(False, True)
    prog.models['<impl str>::trim_left'] = trim_model(True, False)
    prog.models['<impl str>::trim_right'] = trim_model(False, True)
    prog.models['<impl str>::trim_matches'] = trim_model(True, True, 1)
    prog.models['<impl str>::trim_start_matches'] = trim_model(True, False, 1)
    prog.models['<impl str>::trim_end_matches'] = trim_model(False, True, 1)

    @M('<impl str>::split', '<impl str>::rsplit')
    def _(I, a, c):
        s = I.str_of(a[0]); k, p = pat_pred(I, a[1])
        rev = 'rsplit' in c
        if k == 'char': return SplitIt(s, p, 1, rev)
        if not p: raise Unsupported('split by empty string')
        return SplitIt(s, None, len(p), rev, pat=p)
    @M('<impl str>::split_whitespace')
    def _(I, a, c):
        s = I.str_of(a[0]); out = []; cur = []
        for ch in s:
            if truthy(I, ch_is_whitespace(ch)):
                if cur: out.append(tuple(cur)); cur = []
            else: cur.append(ch)
        if cur: out.append(tuple(cur))
        return ListIter(out)
    @M('<impl str>::lines')
    def _(I, a, c):
        s = I.str_of(a[0]); out = []; cur = []
        for ch in s:
            if truthy(I, ch_eq(ch, 10)):
                if cur and truthy(I, ch_eq(cur[-1], 13)): cur.pop()
                out.append(tuple(cur)); cur = []
            else: cur.append(ch)
        if cur: out.append(tuple(cur))
        return ListIter(out)
    @M('<impl str>::split_at')
    def _(I, a, c):
        s = I.str_of(a[0]); n = I.concretize(a[1]); pos = 0
        for k in range(len(s) + 1):
            if pos == n: return TUP(s[:k], s[k:])
            if k < len(s): pos += I.char_width(s[k])
            if pos > n: break
        I.panic('split_at: not a char boundary')
    @M('<impl str>::replace')
    def _(I, a, c):
        s = I.str_of(a[0]); k, p = pat_pred(I, a[1]); to = I.str_of(a[2])
        out = []; i = 0
        if k == 'char':
            for ch in s:
                if truthy(I, p(ch)): out.extend(to)
                else: out.append(ch)
            return RString(out)
        if not p: raise Unsupported('replace empty')
        while i < len(s):
            if i + len(p) <= len(s) and truthy(I, str_eq(s[i:i + len(p)], p)):
                out.extend(to); i += len(p)
            else:
                out.append(s[i]); i += 1
        return RString(out)
    @M('<impl str>::to_lowercase')
    def _(I, a, c):
        out = []
        for ch in I.str_of(a[0]):
            if is_sym(ch): raise Unsupported('to_lowercase of symbolic char')
            out.extend(ord(x) for x in chr(ch).lower())
        return RString(out)
    @M('<impl str>::parse')
    def _(I, a, c):
        ty = generic_args(c)
        s = I.str_of(a[0])
        return parse_number(I, s, ty)
    @M('<impl [_]>::join', '<impl [_]>::concat')
    def _(I, a, c):
        items = I.list_of(a[0]); sep = I.str_of(a[1]) if len(a) > 1 else ()
        out = []
        for i, it in enumerate(items):
            if i: out.extend(sep)
            out.extend(I.str_of(it))
        return RString(out)
    @M('<String as Index>::index', '<str as Index>::index')
    def _(I, a, c):
        s = I.str_of(a[0]); r = I.deref(a[1])
        lo, hi = range_bounds(I, r, None)
        # byte offsets -> char offsets
        pos = 0; ci_lo = None; ci_hi = None
        for k in range(len(s) + 1):
            if pos == lo and ci_lo is None: ci_lo = k
            if hi is not None and pos == hi and ci_hi is None: ci_hi = k
            if k < len(s): pos += I.char_width(s[k])
        if hi is None: ci_hi = len(s)
        if ci_lo is None or ci_hi is None or ci_lo > ci_hi: I.panic('byte index is not a char boundary / out of range')
        return s[ci_lo:ci_hi]
    @M('<impl char>::is_whitespace')
    def _(I, a, c): return ch_is_whitespace(I.deref(a[0]))
    @M('<impl char>::is_ascii_digit')
    def _(I, a, c): return ch_in_range(I.deref(a[0]), 48, 57)
    @M('<impl char>::is_alphanumeric', '<impl char>::is_alphabetic', '<impl char>::is_numeric')
    def _(I, a, c):
        ch = I.deref(a[0])
        if is_sym(ch): raise Unsupported(c + ' of symbolic char')
        s = chr(ch)
        return s.isalnum() if 'alphanumeric' in c else s.isalpha() if 'alphabetic' in c else s.isnumeric()
    @M('<impl char>::len_utf8')
    def _(I, a, c): return I.char_width(I.deref(a[0]))
    @M('<impl char>::to_ascii_lowercase')
    def _(I, a, c):
        ch = I.deref(a[0])
        if is_sym(ch): return z3.If(z3.And(z3.UGE(ch, 65), z3.ULE(ch, 90)), ch + 32, ch)
        return ch + 32 if 65 <= ch <= 90 else ch

    def int_from(I, a, c):
        import re as _re
        m = _re.match(r'^<(\w+) as From<(\w+)>>::from$', c.strip())
        v = I.deref(a[0])
        if isinstance(v, bool): return int(v)
        if not m or not is_sym(v): return v
        dst = INT_TYPES.get(m.group(1)); src = INT_TYPES.get(m.group(2))
        if dst is None or src is None or z3.is_bool(v): return v
        if dst[0] > v.size():
            return z3.SignExt(dst[0] - v.size(), v) if src[1] else z3.ZeroExt(dst[0] - v.size(), v)
        return v
    for _k in ('i64', 'i32', 'u64', 'usize', 'u32', 'i128', 'u128', 'isize', 'u16', 'i16', 'f64'):
        prog.models['<%s as From>::from' % _k] = int_from
    # ---------------- fmt ---------------------------------------------------------------------------
    @M('Argument::new_display', 'Argument::new_debug', 'Argument::new_lower_hex', 'Argument::new_octal')
    def _(I, a, c):
        kind = 'debug' if 'new_debug' in c else 'display'
        ty = generic_args(c) or ''
        if ty.lstrip('&') == 'char':
            return Agg('fmtarg', [kind, Agg('char', [I.deref(a[0])])])
        return Agg('fmtarg', [kind, a[0]])
    @M('Arguments::from_str', 'Arguments::new_const')
    def _(I, a, c):
        return Agg('fmt', [list(I.str_of(a[0]))])
    @M('Arguments::new')
    def _(I, a, c):
        tpl = I.deref(a[0])
        if isinstance(tpl, RVec): tpl = bytes(tpl.v)
        if not isinstance(tpl, (bytes, bytearray)): raise Unsupported('fmt template %r' % (tpl,))
        args = I.list_of(a[1])
        out = []; i = 0; ai = 0
        while True:
            b = tpl[i]; i += 1
            if b == 0: break
            if b < 0x80:
                out.extend(ord(x) for x in tpl[i:i + b].decode('utf-8')); i += b
            elif b == 0x80:
                ln = tpl[i] | (tpl[i + 1] << 8); i += 2
                out.extend(ord(x) for x in tpl[i:i + ln].decode('utf-8')); i += ln
            else:
                flags = 0; width = None; prec = None
                if b != 0xC0:
                    if b & 1: flags = int.from_bytes(tpl[i:i + 4], 'little'); i += 4
                    if b & 2: width = int.from_bytes(tpl[i:i + 2], 'little'); i += 2
                    if b & 4: prec = int.from_bytes(tpl[i:i + 2], 'little'); i += 2
                    if b & 8: ai = int.from_bytes(tpl[i:i + 2], 'little'); i += 2
                    if b & 16 or b & 32: raise Unsupported('indirect width/precision')
                arg = I.deref(args[ai]); ai += 1
                kind, val = arg.f
                chars = debug_fmt(I, val) if kind == 'debug' else display(I, val)
                if prec is not None and isinstance(I.deref(val), float):
                    chars = [ord(x) for x in ('%.' + str(prec) + 'f') % I.deref(val)]
                if width is not None and len(chars) < width:
                    fill = (flags & 0x1FFFFF) or 32
                    align = (flags >> 29) & 3   # 0 left 1 right 2 center 3 unknown
                    pad = width - len(chars)
                    numeric = isinstance(I.deref(val), (int, float)) and not isinstance(I.deref(val), bool)
                    if align == 1 or (align == 3 and numeric): chars = [fill] * pad + chars
                    elif align == 2: chars = [fill] * (pad // 2) + chars + [fill] * (pad - pad // 2)
                    else: chars = chars + [fill] * pad
                out.extend(chars)
        return Agg('fmt', [out])
    @M('format', 'alloc::fmt::format', 'std::fmt::format', 'fmt::format')
    def _(I, a, c): return RString(I.deref(a[0]).f[0])
    @M('std::io::_print', 'io::_print', '_print')
    def _(I, a, c): I.println('out', tuple(I.deref(a[0]).f[0])); return UNIT
    @M('std::io::_eprint', '_eprint')
    def _(I, a, c): I.println('err', tuple(I.deref(a[0]).f[0])); return UNIT
    @M('stderr', 'stdout', 'std::io::stderr', 'std::io::stdout')
    def _(I, a, c): return Opaque('Stderr' if 'err' in c else 'Stdout')
    @M('<Stderr as Write>::write_fmt', '<Stdout as Write>::write_fmt', '<&mut Stderr as Write>::write_fmt')
    def _(I, a, c):
        I.println('err' if 'Stderr' in c else 'out', tuple(I.deref(a[1]).f[0])); return OK(UNIT)
    @M('Formatter::write_str')
    def _(I, a, c): I.deref(a[0]).data.c.extend(I.str_of(a[1])); return OK(UNIT)
    @M('Formatter::write_fmt')
    def _(I, a, c): I.deref(a[0]).data.c.extend(I.deref(a[1]).f[0]); return OK(UNIT)
    @M('<String as Display>::fmt', '<str as Display>::fmt')
    def _(I, a, c): I.deref(a[1]).data.c.extend(I.str_of(a[0])); return OK(UNIT)
    @M('core::panicking::panic', 'panicking::panic', 'core::panicking::panic_fmt', 'panic_fmt', 'begin_panic',
       'core::panicking::panic_display', 'panic_display', 'panic_explicit', 'core::panicking::panic_explicit',
       'unwrap_failed', 'expect_failed', 'panic_bounds_check', 'panic_const_add_overflow')
    def _(I, a, c):
        msg = 'explicit panic'
        try:
            d = I.deref(a[0])
            if isinstance(d, tuple): msg = ''.join(chr(x) if isinstance(x, int) else '?' for x in d)
            elif isinstance(d, Agg) and d.tag == 'fmt': msg = ''.join(chr(x) if isinstance(x, int) else '?' for x in d.f[0])
        except Exception: pass
        I.panic(msg)

    # ---------------- Option / Result ---------------------------------------------------------------
    @M('Option::unwrap', 'Result::unwrap', 'Option::expect', 'Result::expect')
    def _(I, a, c):
        v = I.deref(a[0])
        if v.tag in ('None', 'Err'):
            I.panic('called `%s` on a `%s` value' % (c.split('::')[-1], v.tag))
        return v.f[0]
    @M('Option::is_none')
    def _(I, a, c): return I.deref(a[0]).tag == 'None'
    @M('Option::is_some')
    def _(I, a, c): return I.deref(a[0]).tag == 'Some'
    @M('Result::is_ok')
    def _(I, a, c): return I.deref(a[0]).tag == 'Ok'
    @M('Result::is_err')
    def _(I, a, c): return I.deref(a[0]).tag == 'Err'
    @M('Option::unwrap_or', 'Result::unwrap_or')
    def _(I, a, c):
        v = I.deref(a[0]); return v.f[0] if v.tag in ('Some', 'Ok') else a[1]
    @M('Result::unwrap_or_default', 'Option::unwrap_or_default')
    def _(I, a, c):
        v = I.deref(a[0])
        if v.tag in ('Some', 'Ok'): return v.f[0]
        ty = generic_args(c) or c
        if 'String' in c: return RString()
        raise Unsupported('unwrap_or_default ' + c)
    @M('Result::unwrap_or_else')
    def _(I, a, c):
        v = I.deref(a[0])
        return v.f[0] if v.tag == 'Ok' else I.call_closure(a[1], [v.f[0]])
    @M('Option::unwrap_or_else')
    def _(I, a, c):
        v = I.deref(a[0])
        return v.f[0] if v.tag == 'Some' else I.call_closure(a[1], [])
    @M('Option::map', 'Result::map')
    def _(I, a, c):
        v = I.deref(a[0])
        if v.tag in ('None', 'Err'): return v
        return Agg(v.tag, [I.call_closure(a[1], [v.f[0]])])
    @M('Result::map_or', 'Option::map_or')
    def _(I, a, c):
        v = I.deref(a[0])
        if v.tag in ('None', 'Err'): return a[1]
        return I.call_closure(a[2], [v.f[0]])
    @M('Result::map_err')
    def _(I, a, c):
        v = I.deref(a[0])
        if v.tag == 'Ok': return v
        return ERR(I.call_closure(a[1], [v.f[0]]))
    @M('Result::ok')
    def _(I, a, c):
        v = I.deref(a[0]); return SOME(v.f[0]) if v.tag == 'Ok' else NONE()
    @M('Option::ok_or')
    def _(I, a, c):
        v = I.deref(a[0]); return OK(v.f[0]) if v.tag == 'Some' else ERR(a[1])
    @M('Option::as_ref', 'Option::as_mut')
    def _(I, a, c):
        v = I.deref(a[0])
        return SOME(Ref(v.f, 0)) if v.tag == 'Some' else NONE()
    @M('Option::cloned', 'Option::copied')
    def _(I, a, c):
        v = I.deref(a[0])
        return SOME(deep_clone(I.deref(v.f[0]))) if v.tag == 'Some' else NONE()
    @M('Option::take')
    def _(I, a, c):
        r = a[0]; v = r.get(); r.set(NONE()); return v
    @M('<Result as Try>::branch', '<Option as Try>::branch')
    def _(I, a, c):
        v = I.deref(a[0])
        if v.tag in ('Ok', 'Some'): return Agg('Continue', [v.f[0]])
        return Agg('Break', [v])
    @M('<Result as FromResidual>::from_residual', '<Option as FromResidual>::from_residual')
    def _(I, a, c): return a[0]
    @M('<Option as Clone>::clone', '<Result as Clone>::clone', '<(std::string::String, std::string::String) as Clone>::clone',
       '<Vec as Clone>::clone', '<HashMap as Clone>::clone', '<HashSet as Clone>::clone', '<_ as Clone>::clone')
    def _(I, a, c):
        d = I.deref(a[0])
        if isinstance(d, It): return d.clone()
        return deep_clone(d)

    # ---------------- Vec / slices ------------------------------------------------------------------
    @M('Vec::new', 'Vec::with_capacity')
    def _(I, a, c): return RVec()
    @M('Vec::push')
    def _(I, a, c): I.deref(a[0]).v.append(a[1]); return UNIT
    @M('Vec::pop')
    def _(I, a, c):
        v = I.deref(a[0]).v
        return SOME(v.pop()) if v else NONE()
    @M('Vec::len', '<impl [_]>::len')
    def _(I, a, c): return len(I.list_of(a[0]))
    @M('Vec::is_empty', '<impl [_]>::is_empty')
    def _(I, a, c): return len(I.list_of(a[0])) == 0
    @M('Vec::clear')
    def _(I, a, c): I.deref(a[0]).v[:] = []; return UNIT
    @M('Vec::remove')
    def _(I, a, c):
        v = I.deref(a[0]).v; i = I.concretize(a[1])
        if i >= len(v): I.panic('removal index (is %d) should be < len (is %d)' % (i, len(v)))
        return v.pop(i)
    @M('Vec::insert')
    def _(I, a, c):
        v = I.deref(a[0]).v; i = I.concretize(a[1])
        if i > len(v): I.panic('insertion index (is %d) should be <= len (is %d)' % (i, len(v)))
        v.insert(i, a[2]); return UNIT
    @M('Vec::append')
    def _(I, a, c):
        v = I.deref(a[0]).v; o = I.deref(a[1]).v
        v.extend(o); o[:] = []; return UNIT
    @M('Vec::extend', '<Vec as Extend>::extend', 'Vec::extend_from_slice')
    def _(I, a, c):
        v = I.deref(a[0]).v
        it = to_iter(I, a[1])
        while True:
            x = it.next(I)
            if x is STOP: break
            v.append(deep_clone(I.deref(x)) if isinstance(x, Ref) else x)
        return UNIT
    @M('Vec::truncate')
    def _(I, a, c):
        v = I.deref(a[0]).v; n = I.concretize(a[1]); del v[n:]; return UNIT
    @M('Vec::drain')
    def _(I, a, c):
        v = I.deref(a[0]).v
        lo, hi = range_bounds(I, I.deref(a[1]), len(v))
        if lo > hi or hi > len(v): I.panic('drain range out of bounds')
        out = v[lo:hi]; del v[lo:hi]
        return ListIter(out)
    @M('Vec::retain')
    def _(I, a, c):
        v = I.deref(a[0]).v; keep = []
        for x in list(v):
            cell = [x]
            if truthy(I, I.call_closure(a[1], [Ref(cell, 0)])): keep.append(x)
        v[:] = keep; return UNIT
    @M('<Vec as Deref>::deref', '<Vec as DerefMut>::deref_mut', 'Vec::as_slice', 'Vec::as_mut_slice', '<Vec as AsRef>::as_ref')
    def _(I, a, c):
        d = I.deref(a[0]); return Slice(d.v, 0, len(d.v))
    @M('<impl [_]>::iter', '<impl [_]>::iter_mut')
    def _(I, a, c):
        d = I.deref(a[0])
        if isinstance(d, RVec): return SliceIter(d.v, 0, len(d.v))
        if isinstance(d, Slice): return SliceIter(d.l, d.lo, d.hi)
        raise Unsupported('iter of %r' % (d,))
    @M('<impl [_]>::to_vec', '<[_] as ToOwned>::to_owned')
    def _(I, a, c): return RVec([deep_clone(x) for x in I.list_of(a[0])])
    @M('<impl [_]>::last')
    def _(I, a, c):
        d = I.deref(a[0])
        if isinstance(d, RVec): l, lo, hi = d.v, 0, len(d.v)
        else: l, lo, hi = d.l, d.lo, d.hi
        return SOME(Ref(l, hi - 1)) if hi > lo else NONE()
    @M('<impl [_]>::first')
    def _(I, a, c):
        d = I.deref(a[0])
        if isinstance(d, RVec): l, lo, hi = d.v, 0, len(d.v)
        else: l, lo, hi = d.l, d.lo, d.hi
        return SOME(Ref(l, lo)) if hi > lo else NONE()
    @M('<impl [_]>::get', '<impl [_]>::get_mut')
    def _(I, a, c):
        d = I.deref(a[0]); i = I.concretize(a[1])
        if isinstance(d, RVec): l, lo, hi = d.v, 0, len(d.v)
        else: l, lo, hi = d.l, d.lo, d.hi
        if isinstance(i, Agg): raise Unsupported('slice get with range')
        return SOME(Ref(l, lo + i)) if 0 <= i < hi - lo else NONE()
    @M('<impl [_]>::contains')
    def _(I, a, c):
        x = I.deref(a[1])
        return b_or(*[generic_eq(I, I.deref(y), x) for y in I.list_of(a[0])])
    @M('<impl [_]>::reverse')
    def _(I, a, c):
        d = I.deref(a[0])
        if isinstance(d, RVec): d.v.reverse()
        else: d.l[d.lo:d.hi] = d.l[d.lo:d.hi][::-1]
        return UNIT
    def sort_model(I, a, c):
        """stable merge-free insertion sort; comparisons on symbolic keys fork"""
        d = I.deref(a[0])
        if isinstance(d, RVec): lst, lo, hi = d.v, 0, len(d.v)
        else: lst, lo, hi = d.l, d.lo, d.hi
        items = lst[lo:hi]
        name = c.split('::')[-1].split('<')[0] if '::<' not in c else c[:c.rindex('::<')].split('::')[-1]
        if name in ('sort_by_key', 'sort_unstable_by_key', 'sort_by_cached_key'):
            keys = []
            for k in range(len(items)):
                cell = items
                keys.append(I.call_closure(a[1], [Ref(items, k)]))
            def less(i, j): return key_less(I, keys[i], keys[j])
        elif name in ('sort_by', 'sort_unstable_by'):
            def less(i, j):
                r = I.deref(I.call_closure(a[1], [Ref(items, i), Ref(items, j)]))
                return r.tag == 'Less'
        else:
            def less(i, j): return key_less(I, items[i], items[j])
        order = []
        for i in range(len(items)):
            pos = len(order)
            while pos > 0 and less(i, order[pos - 1]): pos -= 1
            order.insert(pos, i)
        lst[lo:hi] = [items[i] for i in order]
        return UNIT
    for nm in ('sort', 'sort_by', 'sort_by_key', 'sort_unstable', 'sort_unstable_by', 'sort_unstable_by_key'):
        prog.models['<impl [_]>::' + nm] = sort_model
    @M('<impl [_]>::binary_search')
    def _(I, a, c):
        # core::slice::binary_search_by of the pinned toolchain (behaviour on unsorted input matters)
        items = I.list_of(a[0]); x = I.deref(a[1])
        size = len(items)
        if size == 0: return ERR(0)
        base = 0
        def cmp(e):
            e = I.deref(e)
            lt = ilt(I, e, x)
            if truthy(I, lt): return -1
            if truthy(I, generic_eq(I, e, x)): return 0
            return 1
        while size > 1:
            half = size // 2; mid = base + half
            if cmp(items[mid]) != 1: base = mid
            size -= half
        r = cmp(items[base])
        if r == 0: return OK(base)
        return ERR(base + (1 if r == -1 else 0))
    @M('<Vec as Index>::index', '<Vec as IndexMut>::index_mut', '<[_] as Index>::index', '<[_] as IndexMut>::index_mut',
       '<[std::string::String] as Index>::index', '<_ as Index>::index#slice')
    def _(I, a, c): return index_model(I, a, c)
    prog.model_patterns.append((re.compile(r'^<\[.*\] as Index(Mut)?>::index(_mut)?$'), index_model))
    @M('Box::new_uninit')
    def _(I, a, c):
        cell = [Agg('auto', AutoFields())]
        return Agg('auto', AutoFields({0: Agg('auto', AutoFields({0: Ref(cell, 0)}))}))
    @M('box_assume_init_into_vec_unsafe')
    def _(I, a, c):
        b = I.deref(a[0])
        inner = I.deref(b.f[0].f[0])
        arr = inner.f[1].f[0].f[0]
        return RVec(list(arr.v))
    @M('Box::new')
    def _(I, a, c): return a[0]
    @M('<impl [_]>::into_vec')
    def _(I, a, c):
        d = I.deref(a[0]); return RVec(I.list_of(d))

    # ---------------- iterator protocol --------------------------------------------------------------
    @M('<_ as IntoIterator>::into_iter')
    def _(I, a, c): return to_iter(I, a[0])
    @M('<_ as Iterator>::next')
    def _(I, a, c): return opt(I.deref(a[0]).next(I))
    @M('<_ as DoubleEndedIterator>::next_back')
    def _(I, a, c): return opt(I.deref(a[0]).next_back(I))
    @M('<_ as Iterator>::enumerate')
    def _(I, a, c): return Enumerate(I.deref(a[0]))
    @M('<_ as Iterator>::rev')
    def _(I, a, c): return Rev(I.deref(a[0]))
    @M('<_ as Iterator>::map')
    def _(I, a, c): return Map(I.deref(a[0]), a[1])
    @M('<_ as Iterator>::filter')
    def _(I, a, c): return Filter(I.deref(a[0]), a[1])
    @M('<_ as Iterator>::skip')
    def _(I, a, c): return Skip(I.deref(a[0]), I.concretize(a[1]))
    @M('<_ as Iterator>::take')
    def _(I, a, c): return Take(I.deref(a[0]), I.concretize(a[1]))
    @M('<_ as Iterator>::flatten')
    def _(I, a, c): return Flatten(I.deref(a[0]))
    @M('<_ as Iterator>::peekable', '<_ as Iterator>::by_ref', '<_ as Iterator>::fuse')
    def _(I, a, c): return a[0]
    @M('<_ as Iterator>::count')
    def _(I, a, c):
        it = I.deref(a[0]); n = 0
        while it.next(I) is not STOP: n += 1
        return n
    @M('<_ as Iterator>::last')
    def _(I, a, c):
        it = I.deref(a[0]); last = STOP
        while True:
            v = it.next(I)
            if v is STOP: break
            last = v
        return opt(last)
    @M('<_ as Iterator>::nth')
    def _(I, a, c):
        it = I.deref(a[0]); n = I.concretize(a[1])
        for _ in range(n):
            if it.next(I) is STOP: return NONE()
        return opt(it.next(I))
    @M('<_ as Iterator>::any')
    def _(I, a, c):
        it = I.deref(a[0])
        while True:
            v = it.next(I)
            if v is STOP: return False
            if truthy(I, I.call_closure(a[1], [v])): return True
    @M('<_ as Iterator>::all')
    def _(I, a, c):
        it = I.deref(a[0])
        while True:
            v = it.next(I)
            if v is STOP: return True
            if not truthy(I, I.call_closure(a[1], [v])): return False
    @M('<_ as Iterator>::position')
    def _(I, a, c):
        it = I.deref(a[0]); i = 0
        while True:
            v = it.next(I)
            if v is STOP: return NONE()
            if truthy(I, I.call_closure(a[1], [v])): return SOME(i)
            i += 1
    @M('<_ as Iterator>::find')
    def _(I, a, c):
        it = I.deref(a[0])
        while True:
            v = it.next(I)
            if v is STOP: return NONE()
            cell = [v]
            if truthy(I, I.call_closure(a[1], [Ref(cell, 0)])): return SOME(v)
    @M('<_ as Iterator>::for_each')
    def _(I, a, c):
        it = I.deref(a[0])
        while True:
            v = it.next(I)
            if v is STOP: return UNIT
            I.call_closure(a[1], [v])
    @M('<_ as Iterator>::collect', '<_ as FromIterator>::from_iter')
    def _(I, a, c):
        it = to_iter(I, a[0]); items = []
        while True:
            v = it.next(I)
            if v is STOP: break
            items.append(v)
        ty = generic_args(c) or ''
        if ty.startswith('Vec') or ty.startswith('std::vec::Vec'): return RVec(items)
        if ty.startswith('String') or ty.startswith('std::string::String'):
            out = []
            for x in items:
                x = I.deref(x)
                if isinstance(x, (RString, tuple)): out.extend(I.str_of(x))
                else: out.append(x)
            return RString(out)
        if ty.startswith('HashMap') or ty.startswith('HashSet'):
            m = RMap('set' if ty.startswith('HashSet') else 'map')
            for x in items:
                if m.kind == 'set': map_insert(I, m, x, UNIT)
                else: map_insert(I, m, x.f[0], x.f[1])
            return m
        raise Unsupported('collect into ' + ty)
    @M('Range::contains')
    def _(I, a, c): raise Unsupported('Range::contains')

    def wrap_op(op):
        def f(I, a, c):
            x = I.deref(a[0]).f[0]; y = I.deref(a[1]).f[0]
            if not is_sym(x) and not is_sym(y):
                if op == 'add': r = x + y
                elif op == 'sub': r = x - y
                elif op == 'mul': r = x * y
                else:
                    if y == 0: I.panic('attempt to divide by zero')
                    q = abs(x) // abs(y); r = -q if (x < 0) != (y < 0) else q
                return Agg('Wrapping', [wrap(r, 64, True)])
            X = x if is_sym(x) else z3.BitVecVal(x, 64); Y = y if is_sym(y) else z3.BitVecVal(y, 64)
            if op == 'add': r = X + Y
            elif op == 'sub': r = X - Y
            elif op == 'mul': r = X * Y
            else:
                if I.branch(Y == 0): I.panic('attempt to divide by zero')
                r = X / Y          # bvsdiv: MIN / -1 wraps to MIN like wrapping_div
            return Agg('Wrapping', [r])
        return f
    prog.models['<Wrapping as Add>::add'] = wrap_op('add'); prog.models['<Wrapping as Sub>::sub'] = wrap_op('sub')
    prog.models['<Wrapping as Mul>::mul'] = wrap_op('mul'); prog.models['<Wrapping as Div>::div'] = wrap_op('div')
    @M('<impl i64>::pow', '<impl i32>::pow', '<impl u32>::pow', '<impl u64>::pow', '<impl usize>::pow')
    def _(I, a, c):
        import re as _re
        ty = _re.search(r'impl (\w+)', c).group(1); bits, sg = INT_TYPES[ty]
        base = I.deref(a[0]); e = I.concretize(I.deref(a[1]), limit=80)
        if not is_sym(base):
            r = base ** e; w = wrap(r, bits, sg)
            if w != r and I.profile == 'dev': I.panic('attempt to multiply with overflow')
            return w
        acc = z3.BitVecVal(1, bits)
        for _ in range(e):
            ok = z3.And(z3.BVMulNoOverflow(acc, base, sg), z3.BVMulNoUnderflow(acc, base)) if sg else z3.BVMulNoOverflow(acc, base, False)
            if I.profile == 'dev' and not I.branch(ok): I.panic('attempt to multiply with overflow')
            acc = acc * base
        return acc
    @M('<impl i64>::wrapping_pow', '<impl i32>::wrapping_pow', '<impl u64>::wrapping_pow', '<impl u32>::wrapping_pow')
    def _(I, a, c):
        import re as _re
        ty = _re.search(r'impl (\w+)', c).group(1); bits, sg = INT_TYPES[ty]
        base = I.deref(a[0]); e = I.deref(a[1])
        if is_sym(e): e = I.concretize(e, limit=80)
        e &= 0xFFFFFFFF
        if not is_sym(base): return wrap(pow(base, e, 1 << bits), bits, sg)
        acc = z3.BitVecVal(1, bits); b_ = base
        while e:
            if e & 1: acc = acc * b_
            b_ = b_ * b_; e >>= 1
        return acc
    def _wrapping(opname):
        def f(I, a, c):
            import re as _re
            ty = _re.search(r'impl (\w+)', c).group(1); bits, sg = INT_TYPES[ty]
            x = I.deref(a[0]); y = I.deref(a[1]) if len(a) > 1 else None
            sym = is_sym(x) or is_sym(y)
            if sym:
                X = x if is_sym(x) else z3.BitVecVal(x, bits); Y = (y if is_sym(y) else z3.BitVecVal(y, bits)) if y is not None else None
                if opname == 'add': return X + Y
                if opname == 'sub': return X - Y
                if opname == 'mul': return X * Y
                if opname == 'neg': return -X
                raise Unsupported('symbolic wrapping_' + opname)
            if opname == 'add': r = x + y
            elif opname == 'sub': r = x - y
            elif opname == 'mul': r = x * y
            elif opname == 'neg': r = -x
            elif opname in ('div', 'rem'):
                if y == 0: I.panic('attempt to divide by zero' if opname == 'div' else 'attempt to calculate the remainder with a divisor of zero')
                q = abs(x) // abs(y) * (1 if (x < 0) == (y < 0) else -1)
                r = q if opname == 'div' else x - q * y
            return wrap(r, bits, sg)
        return f
    for _ty in ('i64', 'i32', 'u64', 'u32', 'usize', 'isize', 'u8', 'i8', 'u16', 'i16'):
        for _op in ('add', 'sub', 'mul', 'neg', 'div', 'rem'):
            prog.models.setdefault('<impl %s>::wrapping_%s' % (_ty, _op), _wrapping(_op))
    @M('<impl f64>::powf')
    def _(I, a, c):
        from engine import SignFloat
        if isinstance(I.deref(a[0]), SignFloat) or isinstance(I.deref(a[1]), SignFloat):
            raise Unsupported('powf of a symbolic integer converted to a float')
        x = float(I.deref(a[0])); y = float(I.deref(a[1]))
        try: return float(x) ** y if not (x < 0 and y != int(y)) else float('nan')
        except OverflowError: return float('inf')
        except ZeroDivisionError: return float('inf')
    # ---------------- lazy_static / Mutex ---------------------------------------------------------
    def lazy_deref(I, a, c):
        import re as _re
        m = _re.match(r'^<(\w+) as Deref>::deref$', c.strip())
        name = m.group(1) if m else None
        ret = I.prog.lazy_statics.get(name)
        if ret is None: raise Unsupported('call ' + c)
        key = 'lazy:' + name
        if key not in I.globals:
            if 'HashMap' in ret: inner = RMap('map')
            elif 'HashSet' in ret: inner = RMap('set')
            else:
                # any other lazy static: run its initialiser from the MIR
                init = None
                for nm2, r2 in I.prog.module.raw.items():
                    if r2[0] == 'fn' and 'deref::__static_ref_initialize' in nm2 and r2[2].replace('pest::pratt_parser::', '').replace(' ', '') == ret.lstrip('&').replace(' ', ''):
                        init = nm2; break
                if init is None: raise Unsupported('lazy static ' + name + ': ' + ret)
                I.globals[key] = [I.exec_fn(I.prog.module.fn(init), [])]
                return Ref(I.globals[key], 0)
            I.globals[key] = [Agg('Mutex', [inner]) if 'Mutex' in ret else inner]
        return Ref(I.globals[key], 0)
    prog.model_patterns.append((re.compile(r'^<[A-Z][A-Z0-9_]+ as Deref>::deref$'), lazy_deref))
    @M('Mutex::new')
    def _(I, a, c): return Agg('Mutex', [a[0]])
    @M('Mutex::lock', 'Mutex::try_lock')
    def _(I, a, c):
        m = I.deref(a[0])
        return OK(Agg('MutexGuard', [Ref(m.f, 0)]))
    @M('<MutexGuard as Deref>::deref', '<MutexGuard as DerefMut>::deref_mut')
    def _(I, a, c): return I.deref(a[0]).f[0]

    install_maps(prog)
    import models_regex, models_env, models_os
    models_regex.install(prog)
    models_env.install(prog)
    models_os.install(prog)
    import osmodel
    osmodel.install(prog)
    import pestmodel
    pestmodel.install(prog)

def key_less(I, x, y):
    x = I.deref(x); y = I.deref(y)
    if isinstance(x, bool) or isinstance(y, bool) or (is_sym(x) and z3.is_bool(x)) or (is_sym(y) and z3.is_bool(y)):
        # false < true
        return truthy(I, b_and(b_not(x), y))
    if isinstance(x, (RString, tuple)) or isinstance(y, (RString, tuple)):
        xs = I.str_of(x); ys = I.str_of(y)
        for p, q in zip(xs, ys):
            if truthy(I, ch_eq(p, q)): continue
            lt = (p < q) if not (is_sym(p) or is_sym(q)) else z3.ULT(p if is_sym(p) else z3.BitVecVal(p, 32), q if is_sym(q) else z3.BitVecVal(q, 32))
            return truthy(I, lt)
        return len(xs) < len(ys)
    if isinstance(x, Agg) and isinstance(y, Agg):
        for p, q in zip(x.f, y.f):
            if key_less(I, p, q): return True
            if key_less(I, q, p): return False
        return False
    return truthy(I, ilt(I, x, y))

def index_model(I, a, c):
    d = I.deref(a[0]); idx = I.deref(a[1])
    if isinstance(d, RVec): l, lo, hi = d.v, 0, len(d.v)
    elif isinstance(d, Slice): l, lo, hi = d.l, d.lo, d.hi
    elif isinstance(d, RMap):
        r = map_find(I, d, idx)
        if r is None: I.panic('key not found in map')
        return Ref(r, 1)
    else: raise Unsupported('index of %r' % (d,))
    if isinstance(idx, Agg):
        a_, b_ = range_bounds(I, idx, hi - lo)
        if b_ is None: b_ = hi - lo
        if a_ > b_: I.panic('slice index starts at %d but ends at %d' % (a_, b_))
        if b_ > hi - lo: I.panic('range end index %d out of range for slice of length %d' % (b_, hi - lo))
        return Slice(l, lo + a_, lo + b_)
    i = I.concretize(idx)
    if not (0 <= i < hi - lo): I.panic('index out of bounds: the len is %d but the index is %d' % (hi - lo, i))
    return Ref(l, lo + i)

def range_bounds(I, r, n):
    t = r.tag
    if t == 'Range': return I.concretize(r.f[0]), I.concretize(r.f[1])
    if t == 'RangeFrom': return I.concretize(r.f[0]), n
    if t == 'RangeTo': return 0, I.concretize(r.f[0])
    if t == 'RangeFull': return 0, n
    if t == 'RangeInclusive': return I.concretize(r.f[0]), I.concretize(r.f[1]) + 1
    if t == 'RangeToInclusive': return 0, I.concretize(r.f[0]) + 1
    raise Unsupported('range ' + str(t))

def ilt(I, a, b):
    sa = is_sym(a); sb = is_sym(b)
    if not sa and not sb: return a < b
    bits = a.size() if sa else b.size()
    A = a if sa else z3.BitVecVal(a, bits); B = b if sb else z3.BitVecVal(b, bits)
    return A < B     # signed (i32 pids); unsigned users do not reach here

def generic_eq(I, x, y):
    x = I.deref(x); y = I.deref(y)
    if isinstance(x, (RString, tuple)) or isinstance(y, (RString, tuple)):
        if isinstance(x, Agg) and x.tag == 'Cow': x = x.f[0]
        if isinstance(y, Agg) and y.tag == 'Cow': y = y.f[0]
        return str_eq(I.str_of(x), I.str_of(y))
    if isinstance(x, bool) and isinstance(y, bool): return x == y
    if isinstance(x, (int, float)) and isinstance(y, (int, float)): return x == y
    if is_sym(x) or is_sym(y):
        if is_sym(x) and z3.is_bool(x) or is_sym(y) and z3.is_bool(y):
            X = x if is_sym(x) else z3.BoolVal(x); Y = y if is_sym(y) else z3.BoolVal(y)
            return X == Y
        bits = x.size() if is_sym(x) else y.size()
        X = x if is_sym(x) else z3.BitVecVal(x, bits); Y = y if is_sym(y) else z3.BitVecVal(y, bits)
        return X == Y
    if isinstance(x, Agg) and isinstance(y, Agg):
        if x.tag != y.tag or len(x.f) != len(y.f): return False
        return b_and(*[generic_eq(I, p, q) for p, q in zip(x.f, y.f)])
    if isinstance(x, (RVec, Slice)) and isinstance(y, (RVec, Slice)):
        xs = I.list_of(x); ys = I.list_of(y)
        if len(xs) != len(ys): return False
        return b_and(*[generic_eq(I, p, q) for p, q in zip(xs, ys)])
    if isinstance(x, Opaque) and isinstance(y, Opaque):
        return x.what == y.what and x.data == y.data
    raise Unsupported('eq of %r and %r' % (x, y))

def parse_number(I, s, ty):
    """str::parse::<int>() after core::num::from_str_radix: optional sign, decimal digits, overflow -> Err"""
    if ty in ('f64', 'f32'):
        if any(is_sym(c) for c in s):
            # floats are not reasoned about symbolically: fork over the (few) feasible characters
            s = tuple(I.concretize(c, limit=16) if is_sym(c) else c for c in s)
        txt = ''.join(chr(c) for c in s)
        if re.fullmatch(r'[+-]?(\d+\.?\d*([eE][+-]?\d+)?|\.\d+([eE][+-]?\d+)?|inf|infinity|nan)', txt, re.I):
            return OK(float(txt))
        return ERR(Opaque('ParseFloatError'))
    if ty not in INT_TYPES: raise Unsupported('parse::<%s>' % ty)
    bits, signed = INT_TYPES[ty]
    err = lambda: ERR(Opaque('ParseIntError'))
    if not s: return err()
    i = 0; neg = False
    c0 = s[0]
    if truthy(I, ch_eq(c0, 43)): i = 1
    elif signed and truthy(I, ch_eq(c0, 45)): i = 1; neg = True
    if i >= len(s): return err()
    digs = []
    for c in s[i:]:
        if not truthy(I, ch_in_range(c, 48, 57)): return err()
        digs.append(c)
    if all(not is_sym(d) for d in digs):
        val = int(''.join(chr(d) for d in digs))
        if neg: val = -val
        lo = -(1 << (bits - 1)) if signed else 0
        hi = (1 << (bits - 1)) - 1 if signed else (1 << bits) - 1
        return OK(val) if lo <= val <= hi else err()
    # symbolic digits: accumulate in a wider vector and fork on overflow
    W = bits + 8 + 4 * len(digs)
    acc = z3.BitVecVal(0, W)
    for d in digs:
        dv = (z3.ZeroExt(W - 32, d) if is_sym(d) else z3.BitVecVal(d, W)) - 48
        acc = acc * 10 + dv
    if neg: acc = -acc
    lo = -(1 << (bits - 1)) if signed else 0
    hi = (1 << (bits - 1)) - 1 if signed else (1 << bits) - 1
    inr = z3.And(acc >= lo, acc <= hi)
    if not I.branch(inr): return err()
    return OK(z3.simplify(z3.Extract(bits - 1, 0, acc)))

# ---------------- HashMap / HashSet ---------------------------------------------------------------------
def map_find(I, m, key):
    key = I.deref(key)
    for it in m.items:
        if truthy(I, generic_eq(I, it[0], key)): return it
    return None
def map_insert(I, m, key, val):
    it = map_find(I, m, key)
    if it is not None:
        old = it[1]; it[1] = val; return old
    m.items.append([key, val]); return None

def install_maps(prog):
    M = prog.model
    @M('HashMap::new', 'HashMap::with_capacity', '<HashMap as Default>::default')
    def _(I, a, c): return RMap('map')
    @M('HashSet::new', 'HashSet::with_capacity', '<HashSet as Default>::default')
    def _(I, a, c): return RMap('set')
    @M('HashMap::insert')
    def _(I, a, c):
        old = map_insert(I, I.deref(a[0]), a[1], a[2])
        return NONE() if old is None else SOME(old)
    @M('HashSet::insert')
    def _(I, a, c):
        m = I.deref(a[0])
        if map_find(I, m, a[1]) is not None: return False
        m.items.append([a[1], UNIT]); return True
    @M('HashMap::get', 'HashMap::get_mut')
    def _(I, a, c):
        it = map_find(I, I.deref(a[0]), a[1])
        return NONE() if it is None else SOME(Ref(it, 1))
    @M('HashMap::contains_key', 'HashSet::contains')
    def _(I, a, c): return map_find(I, I.deref(a[0]), a[1]) is not None
    @M('HashMap::remove')
    def _(I, a, c):
        m = I.deref(a[0]); it = map_find(I, m, a[1])
        if it is None: return NONE()
        m.items = [x for x in m.items if x is not it]
        return SOME(it[1])
    @M('HashSet::remove')
    def _(I, a, c):
        m = I.deref(a[0]); it = map_find(I, m, a[1])
        if it is None: return False
        m.items = [x for x in m.items if x is not it]
        return True
    @M('HashMap::is_empty', 'HashSet::is_empty')
    def _(I, a, c): return len(I.deref(a[0]).items) == 0
    @M('HashMap::len', 'HashSet::len')
    def _(I, a, c): return len(I.deref(a[0]).items)
    @M('HashMap::clear', 'HashSet::clear')
    def _(I, a, c): I.deref(a[0]).items = []; return UNIT
    @M('HashMap::iter', 'HashSet::iter', 'HashMap::iter_mut')
    def _(I, a, c): return map_iter(I, I.deref(a[0]))
    @M('HashMap::keys')
    def _(I, a, c):
        it = map_iter(I, I.deref(a[0])); return ListIter([x.f[0] for x in it.items])
    @M('HashMap::values', 'HashMap::values_mut')
    def _(I, a, c):
        it = map_iter(I, I.deref(a[0])); return ListIter([x.f[1] for x in it.items])
    @M('<HashMap as Index>::index')
    def _(I, a, c): return index_model(I, a, c)
