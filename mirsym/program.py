"""Program = parsed MIR module + call resolution (crate bodies first, then library models) + caches."""
import os
import re
import mir as mirmod
from engine import (Agg, RVec, RString, Ref, FnItem, Opaque, Unsupported, UNIT, AutoFields, INT_TYPES)

_IMPL = re.compile(r'^(.*?)<impl at ([^>]+?):(\d+):(\d+): (\d+):(\d+)>::(.*)$')

def strip_generics(s):
    """remove generic argument lists (turbofish and type arguments) from a path, keep <impl ..> and <X as Y>"""
    out = ''; i = 0; n = len(s)
    while i < n:
        c = s[i]
        if c == '<':
            depth = 0; j = i
            while j < n:
                d = s[j]
                if d == '<': depth += 1
                elif d == '>' and s[j - 1] != '-':
                    depth -= 1
                    if depth == 0: break
                j += 1
            inner = s[i + 1:j]
            if inner.startswith('impl '):
                body = inner[5:]
                body = re.sub(r'\[.*\]', '[_]', body)
                body = strip_generics(body)
                out += '<impl ' + body + '>'
            elif _has_top_as(inner) and (i == 0 or s[i - 1] in ':( ,&'):
                a, b = _split_as(inner)
                out += '<' + last_seg(strip_generics(a)) + ' as ' + last_seg(strip_generics(b)) + '>'
            else:
                if out.endswith('::'): out = out[:-2]
            i = j + 1
            continue
        out += c; i += 1
    return out.replace("'_ ", '').replace("'static ", '')

def _has_top_as(inner):
    depth = 0
    for i, c in enumerate(inner):
        if c in '<([': depth += 1
        elif c in '>)]':
            if not (c == '>' and inner[i - 1] == '-'): depth -= 1
        elif depth == 0 and inner.startswith(' as ', i):
            return True
    return False

def _split_as(inner):
    depth = 0
    for i, c in enumerate(inner):
        if c in '<([': depth += 1
        elif c in '>)]':
            if not (c == '>' and inner[i - 1] == '-'): depth -= 1
        elif depth == 0 and inner.startswith(' as ', i):
            return inner[:i], inner[i + 4:]
    raise ValueError(inner)

def last_seg(p):
    p = p.strip()
    if p.startswith('&'):
        q = p.lstrip('&')
        if q.startswith('mut '): q = q[4:]
        return '&' + last_seg(q)
    if p.startswith('[') or p.startswith('(') or p.startswith('{') or p.startswith('dyn '): return p
    return p.split('::')[-1]

def generic_args(callee):
    """text of the trailing turbofish of a callee: `parse::<i32>` -> 'i32'"""
    if not callee.endswith('>'): return None
    depth = 0; k = len(callee) - 1
    while k >= 0:
        c = callee[k]
        if c == '>' and callee[k - 1] != '-': depth += 1
        elif c == '<':
            depth -= 1
            if depth == 0: break
        k -= 1
    if k >= 2 and callee[k - 2:k] == '::':
        return callee[k + 1:-1]
    return None

class Program:
    def __init__(self, module, repo='/repo'):
        self.module = module
        self.repo = repo
        self.optype_cache = {}
        self.const_cache = {}
        self.call_cache = {}
        self._nlocals = {}
        self.fn_entered = set()
        self.models = {}          # key -> callable
        self.model_patterns = []  # (compiled regex on canonical key, callable)
        self.by_key = {}          # canonical crate key -> def name (None when ambiguous)
        self.closures = {}        # span -> def name
        self.full = {}            # stripped full def name -> def name
        self.struct_fields = {}   # tag -> [names]
        self.variants = {}        # variant tag -> index (crate enums, read from source)
        self.const_models = []
        self.forced_models = []   # (regex, model): library code whose derive-generated body is in the dump but is modelled instead
        self._src = {}
        self._index()
        self._enum_index()

    # ---------- indexing of crate definitions ------------------------------------------------
    def _srcline(self, f, ln):
        if f not in self._src:
            try:
                p = f if os.path.isabs(f) else os.path.join(self.repo, f)
                self._src[f] = open(p, encoding='utf-8', errors='replace').read().split('\n')
            except Exception:
                self._src[f] = []
        L = self._src[f]
        return L[ln - 1] if 0 < ln <= len(L) else ''

    def _impl_info(self, f, ln, col):
        """(self type, trait or None) of the impl block / derive at file:line:col"""
        text = self._srcline(f, ln)[col - 1:]
        m = re.match(r'impl(?:<[^>]*>)?\s+(?:([\w:]+)(?:<[^>]*>)?\s+for\s+)?([\w:]+)', text)
        if m:
            tr = m.group(1); ty = m.group(2)
            return ty.split('::')[-1], (tr.split('::')[-1] if tr else None)
        m = re.match(r'(\w+)', text)
        if m and 'derive' in self._srcline(f, ln):
            tr = m.group(1)
            for k in range(ln, ln + 12):
                mm = re.search(r'\b(?:struct|enum)\s+(\w+)', self._srcline(f, k))
                if mm: return mm.group(1), tr
        return None, None

    def _add_key(self, key, name):
        if key in self.by_key and self.by_key[key] != name:
            self.by_key[key] = None
        else:
            self.by_key[key] = name

    def _index(self):
        self.lazy_statics = {}    # static type name -> return type text of its Deref impl
        for name in self.module.names():
            r = self.module.raw[name]
            if r[0] == 'fn' and 'lazy_static' in name and name.split('#dup')[0].endswith('>::deref') and r[1]:
                self.lazy_statics[r[1].split(': &', 1)[1].strip()] = r[2]
                continue
            if '#dup' in name: continue
            if r[0] == 'fn' and r[1]:
                a1 = mirmod.split_top(r[1])[0]
                m = re.search(r'\{closure@([^}]+)\}', a1.split(': ', 1)[1]) if '_1: ' in a1 else None
                if m and '{closure#' in name.split('::')[-1]:
                    self.closures['closure@' + m.group(1)] = name
            m = _IMPL.match(name)
            if m:
                modp, f, ln, col, _, _, rest = m.groups()
                ty, tr = self._impl_info(f, int(ln), int(col))
                if ty is None and r[0] == 'fn' and r[1]:
                    a1 = mirmod.split_top(r[1])[0].split(': ', 1)[1]
                    ty = last_seg(strip_generics(a1.lstrip('&').replace('mut ', '')))
                if ty is None: continue
                rest_s = strip_generics(rest)
                segs = [s for s in modp.split('::') if s]
                for k in range(len(segs) + 1):
                    pre = '::'.join(segs[k:])
                    pre = pre + '::' if pre else ''
                    self._add_key(pre + ty + '::' + rest_s, name)
                if tr:
                    self._add_key('<%s as %s>::%s' % (ty, tr, rest_s), name)
            else:
                s = strip_generics(name)
                self.full[s] = name
                self._add_key(s, name)

    def _enum_index(self):
        """variant order of the crate's own enums, from the source (needed for discriminant())"""
        src = os.path.join(self.repo, 'src')
        for root, _, files in os.walk(src):
            for fn in files:
                if not fn.endswith('.rs'): continue
                try: txt = open(os.path.join(root, fn), encoding='utf-8', errors='replace').read()
                except Exception: continue
                for m in re.finditer(r'\benum\s+(\w+)\s*\{([^}]*)\}', txt):
                    body = re.sub(r'//[^\n]*', '', m.group(2))
                    idx = 0
                    for part in mirmod.split_top(body):
                        mm = re.match(r'(?:#\[[^\]]*\]\s*)*(\w+)', part.strip())
                        if mm:
                            self.variants.setdefault(mm.group(1), idx); idx += 1

    def variant_index(self, tag):
        return self.variants.get(tag)

    def nlocals(self, fn):
        n = self._nlocals.get(fn.name)
        if n is None:
            mx = fn.nargs
            for k in fn.types:
                if k > mx: mx = k
            for blk in fn.blocks.values():
                for st in blk:
                    if st[0] in ('assign', 'call') and st[1] is not None and st[1][0] > mx: mx = st[1][0]
            n = mx + 1
            self._nlocals[fn.name] = n
        return n

    def lookup(self, name):
        f = self.module.fn(name)
        if f is not None: return f
        key = strip_generics(name)
        d = self.by_key.get(key)
        if d: return self.module.fn(d)
        # harness-side lookups may give a longer path than the (trimmed) definition name
        segs = key.split('::')
        for k in range(1, len(segs)):
            d = self.by_key.get('::'.join(segs[k:]))
            if d: return self.module.fn(d)
        return None

    def closure_fn(self, span):
        d = self.closures.get(span)
        return self.module.fn(d) if d else None

    def resolve_promoted(self, fn, text):
        m = re.search(r'promoted\[(\d+)\]$', text)
        name = fn.name + '::promoted[%s]' % m.group(1)
        if name in self.module.raw: return name
        # closures / nested: the dump names promoteds after the def path they belong to
        for cand in self.module.raw:
            if cand.endswith('::promoted[%s]' % m.group(1)) and text.endswith(cand): return cand
        raise Unsupported('promoted ' + text)

    def resolve_const(self, fn, text):
        s = strip_generics(text)
        if s in self.module.raw: return s
        d = self.by_key.get(s)
        if d and self.module.raw[d][0] in ('const', 'constval'): return d
        for cand, r in self.module.raw.items():
            if r[0] in ('const', 'constval') and (s.endswith('::' + cand) or cand.endswith('::' + s)): return cand
        return None

    def const_alloc(self, I, fn, text):
        m = re.match(r'^\{(alloc\d+)(?:: (.*))?\}$', text)
        if m:
            b = self.module.allocs.get(m.group(1))
            ty = m.group(2) or ''
            if b is not None and ('[u8' in ty or 'str' in ty):
                return b
            return Opaque('alloc', (m.group(1), ty))
        raise Unsupported('const ' + text)

    def const_model(self, I, fn, s):
        for h in self.const_models:
            v = h(I, fn, s)
            if v is not NotImplemented: return v
        return NotImplemented

    def make_adt(self, I, path, fields, names):
        p = strip_generics(path)
        tag = p.split('::')[-1]
        if names and names[0] is not None:
            self.struct_fields.setdefault(tag, names)
        return Agg(tag, fields)

    def field_index(self, tag, name):
        return self.struct_fields[tag].index(name)

    def field_of(self, I, v, idx, ty):
        h = self.models.get('@field')
        if h is not None:
            r = h(I, v, idx, ty)
            if r is not NotImplemented: return r
        raise Unsupported('field %d (%s) of %r' % (idx, ty, v))

    def drop_file(self, I, v):
        h = self.models.get('@drop_file')
        if h: h(I, v)

    # ---------- call resolution ------------------------------------------------------------------
    def resolve_call(self, fn, callee):
        key = strip_generics(callee)
        for rx_, h in self.forced_models:
            if rx_.search(key): return ('model', h, key)
        d = self.by_key.get(key)
        if d is None and key.startswith('<'):
            d = None
        if d is not None and self.module.raw[d][0] == 'fn':
            f = self.module.fn(d)
            return ('fn', f, key)
        m = self.find_model(key)
        if m is not None:
            return ('model', m, key)
        return ('none', None, key)

    def find_model(self, key):
        m = self.models.get(key)
        if m is not None: return m
        if key.startswith('<'):
            # <X as T>::m  ->  <_ as T>::m
            j = key.index(' as ')
            k2 = '<_' + key[j:]
            m = self.models.get(k2)
            if m is not None: return m
        else:
            segs = key.split('::')
            for k in range(1, len(segs)):
                m = self.models.get('::'.join(segs[k:]))
                if m is not None: return m
        for rx_, h in self.model_patterns:
            if rx_.search(key): return h
        return None

    def model(self, *keys):
        def deco(f):
            for k in keys: self.models[k] = f
            return f
        return deco
