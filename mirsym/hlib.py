"""helpers shared by the harnesses: building cicada values, reading results"""
import re
from engine import (RString, RVec, Agg, Ref, RMap, Opaque, UNIT, NONE, SOME, lit, is_sym, Unsupported)
import models_env

_fields_cache = {}
def fields_of(prog, tag):
    """declaration-order field names of a crate struct, read from an aggregate in the MIR dump"""
    r = _fields_cache.get((id(prog), tag))
    if r is None:
        m = re.search(r'= (?:[\w:]+::)?%s \{ ([^;]*) \};' % re.escape(tag), prog.module.text)
        if not m: raise Unsupported('no aggregate of struct %s in the dump' % tag)
        r = [p.split(':')[0].strip() for p in __import__('mir').split_top(m.group(1))]
        _fields_cache[(id(prog), tag)] = r
        prog.struct_fields.setdefault(tag, r)
    return r

def mk_struct(prog, tag, **kw):
    names = fields_of(prog, tag)
    missing = [n for n in names if n not in kw]
    if missing: raise Unsupported('mk_struct %s: missing %s' % (tag, missing))
    return Agg(tag, [kw[n] for n in names])

def field(prog, v, name):
    return v.f[fields_of(prog, v.tag).index(name)]

def set_field(prog, v, name, val):
    v.f[fields_of(prog, v.tag).index(name)] = val

def rs(s):
    return RString(lit(s) if isinstance(s, str) else s)

def strmap(d):
    m = RMap('map')
    for k, v in d.items():
        m.items.append([rs(k), rs(v)])
    return m

def mk_shell(I, aliases=None, envs=None, funcs=None, previous_status=0, has_terminal=False, previous_cmd='', cmd=''):
    p = I.prog
    return mk_struct(p, 'Shell', jobs=RMap('map'), aliases=strmap(aliases or {}), envs=strmap(envs or {}),
                     funcs=strmap(funcs or {}), cmd=rs(cmd), current_dir=rs('/cwd'), previous_dir=rs(''),
                     previous_cmd=rs(previous_cmd), previous_status=previous_status, is_login=False,
                     exit_on_error=False, has_terminal=has_terminal, session_id=rs('sess'))

def tokens_value(toks):
    """python [(sep, text)] with char tuples -> Vec<(String,String)>"""
    return RVec([Agg(None, [rs(a), rs(b)]) for a, b in toks])

def tokens_of(I, v):
    """Vec<(String,String)> -> python list of (sep tuple, text tuple)"""
    out = []
    for t in I.list_of(v):
        t = I.deref(t)
        out.append((I.str_of(t.f[0]), I.str_of(t.f[1])))
    return out

def plan_of(I, cl):
    """CommandLine value -> dict(commands=[dict(tokens, redirects_to, redirect_from)], envs, background)"""
    p = I.prog
    cmds = []
    for c in I.list_of(field(p, cl, 'commands')):
        c = I.deref(c)
        rt = []
        for r in I.list_of(field(p, c, 'redirects_to')):
            r = I.deref(r); rt.append(tuple(I.str_of(x) for x in r.f))
        rf = field(p, c, 'redirect_from')
        rf = None if rf.tag == 'None' else tuple(I.str_of(x) for x in I.deref(rf.f[0]).f)
        cmds.append(dict(tokens=tokens_of(I, field(p, c, 'tokens')), redirects_to=rt, redirect_from=rf))
    envs = [(I.str_of(k), I.str_of(v)) for k, v in field(p, cl, 'envs').items]
    return dict(commands=cmds, envs=envs, background=field(p, cl, 'background'))

def truthy(I, c):
    return I.branch(c) if is_sym(c) else bool(c)
