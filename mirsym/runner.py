"""Check driver: regenerates the MIR from /repo's working tree, runs a property's harness instances in parallel,
triages violations against known_findings.json, replays them natively and writes the evidence file."""
import argparse, hashlib, importlib, json, multiprocessing as mp, os, subprocess, sys, time, traceback

VERIF = os.path.dirname(os.path.dirname(os.path.abspath(__file__)))
REPO = '/repo'
BUILD = os.path.join(VERIF, 'build')
sys.path.insert(0, os.path.join(VERIF, 'mirsym'))
sys.path.insert(0, os.path.join(VERIF, 'harness'))

ENV = dict(os.environ, CARGO_NET_OFFLINE='true')

def tree_hash():
    h = hashlib.sha256()
    for root, dirs, files in os.walk(os.path.join(REPO, 'src')):
        dirs.sort()
        for f in sorted(files):
            p = os.path.join(root, f)
            h.update(p.encode()); h.update(open(p, 'rb').read())
    for f in ('Cargo.toml', 'Cargo.lock'):
        h.update(open(os.path.join(REPO, f), 'rb').read())
    return h.hexdigest()[:16]

def sh(cmd, cwd=None, env=None, timeout=1800):
    r = subprocess.run(cmd, shell=True, cwd=cwd, env=env or ENV, stdout=subprocess.PIPE, stderr=subprocess.STDOUT, timeout=timeout)
    return r.returncode, r.stdout.decode('utf-8', 'replace')

def ensure_mir(log=print):
    """MIR of the bin crate (all modules) for the current working tree; cached by content hash"""
    os.makedirs(BUILD, exist_ok=True)
    th = tree_hash()
    out = os.path.join(BUILD, 'mir-%s.mir' % th)
    if os.path.exists(out) and os.path.getsize(out) > 100000:
        return out, th
    t = time.time()
    tmp = out + '.tmp%d' % os.getpid()
    env = dict(ENV, CARGO_TARGET_DIR=os.path.join(BUILD, 'mir'))
    # touching main.rs would edit /repo; instead invalidate the crate fingerprint via a unique cfg value
    rc, o = sh('cargo +nightly rustc --offline --bin cicada -- -Zunpretty=mir -C debug-assertions=off -C overflow-checks=on '
               '--cfg verif_mir_%s > %s' % (th, tmp), cwd=REPO, env=env)
    if rc != 0 or os.path.getsize(tmp) < 100000:
        try: os.unlink(tmp)
        except OSError: pass
        raise RuntimeError('MIR dump failed (does /repo compile?):\n' + o[-3000:])
    os.replace(tmp, out)
    for f in os.listdir(BUILD):
        if f.startswith('mir-') and f.endswith('.mir') and f != os.path.basename(out):
            try: os.unlink(os.path.join(BUILD, f))
            except OSError: pass
    log('mir dump regenerated in %.1fs (%s)' % (time.time() - t, th))
    return out, th

def ensure_native(log=print):
    """native replay tool + cicada binary built from the current working tree (cfg cicada_verif)"""
    t = time.time()
    lock = os.path.join(BUILD, 'native.lock')
    import fcntl
    with open(lock, 'w') as lf:
        fcntl.flock(lf, fcntl.LOCK_EX)
        env = dict(ENV, CARGO_TARGET_DIR=os.path.join(BUILD, 'native'), RUSTFLAGS='--cfg cicada_verif')
        subprocess.run('cp %s/Cargo.lock %s/native/Cargo.lock.repo' % (REPO, VERIF), shell=True)
        rc, o = sh('cargo build --offline', cwd=os.path.join(VERIF, 'native'), env=env)
        if rc != 0: raise RuntimeError('native tool build failed:\n' + o[-3000:])
        # the shell binary itself is built WITHOUT the guard (it is what users run; the hooks live in the lib only)
        envb = dict(ENV, CARGO_TARGET_DIR=os.path.join(BUILD, 'bin'))
        rc, o = sh('cargo build --offline --bin cicada', cwd=REPO, env=envb)
        if rc != 0: raise RuntimeError('cicada build failed:\n' + o[-3000:])
    hd = os.path.join(BUILD, 'helpers'); os.makedirs(hd, exist_ok=True)
    src = os.path.join(VERIF, 'helpers/src/fdreport.c')
    if not os.path.exists(os.path.join(hd, 'fdreport')) or os.path.getmtime(os.path.join(hd, 'fdreport')) < os.path.getmtime(src):
        rc, o = sh('clang -O1 -o %s/fdreport %s' % (hd, src))
        if rc != 0: raise RuntimeError('helper build failed: ' + o[-500:])
        for i in range(6): subprocess.run(['cp', os.path.join(hd, 'fdreport'), os.path.join(hd, 'c%d' % i)])
    log('native side built in %.1fs' % (time.time() - t))

_PROG = None
def load_program(mirpath):
    global _PROG
    import mir, program, models
    mod = mir.load(mirpath)
    prog = program.Program(mod, REPO)
    models.install(prog)
    _PROG = prog
    return prog

def _worker(job):
    """one harness instance (optionally one sub-tree of it) -> summary dict"""
    hmod_name, inst, tier, seed, deadline = job
    hmod = importlib.import_module(hmod_name)
    t0 = time.time()
    try:
        res = hmod.run_instance(_PROG, inst, tier, seed, deadline)
        res['instance'] = inst.get('name')
        res['wall_s'] = time.time() - t0
        return res
    except Exception as e:
        return {'instance': inst.get('name'), 'error': ''.join(traceback.format_exception(type(e), e, e.__traceback__))[-3000:],
                'wall_s': time.time() - t0}

def load_known(pid):
    p = os.path.join(VERIF, 'known_findings.json')
    if not os.path.exists(p): return []
    return [k for k in json.load(open(p)).get('findings', []) if k.get('property') == pid and k.get('status', 'known') == 'known']

def setup():
    t0 = time.time()
    log = lambda *x: print('[setup %6.1fs]' % (time.time() - t0), *x, flush=True)
    mirpath, th = ensure_mir(log)
    ensure_native(log)
    prog = load_program(mirpath)
    import selftest
    ok = selftest.run(prog, log)
    log('setup done' if ok else 'SELF-TEST FAILED')
    return 0 if ok else 1

def main(argv=None):
    if (argv or sys.argv[1:])[:1] == ['--setup']:
        return setup()
    ap = argparse.ArgumentParser()
    ap.add_argument('property')
    ap.add_argument('--tier', default=os.environ.get('VERIF_TIER', 'quick'))
    ap.add_argument('--jobs', type=int, default=int(os.environ.get('VERIF_JOBS', '16')))
    ap.add_argument('--replay', default=None)
    ap.add_argument('--only', default=None, help='run only instances whose name contains this')
    ap.add_argument('--budget', type=float, default=None, help='wall-clock budget in seconds')
    a = ap.parse_args(argv)
    pid = a.property
    seed = int(os.environ.get('VERIF_SEED', '0') or 0)
    os.environ.setdefault('VERIF_XCHECK', '300' if a.tier == 'thorough' else '3000')
    t0 = time.time()
    log = lambda *x: print('[%s %6.1fs]' % (pid, time.time() - t0), *x, flush=True)
    try:
        mirpath, th = ensure_mir(log)
        ensure_native(log)
    except Exception as e:
        print('INCONCLUSIVE property=%s reason=build: %s' % (pid, e)); return 2
    hname = 'h_' + pid.lower()
    try:
        hmod = importlib.import_module(hname)
    except ImportError as e:
        print('INCONCLUSIVE property=%s reason=no harness (%s)' % (pid, e)); return 2
    if a.replay:
        load_program(mirpath)
        return hmod.replay_file(a.replay)
    prog = load_program(mirpath)
    insts = hmod.instances(a.tier, seed)
    if a.only: insts = [i for i in insts if a.only in i['name']]
    budget = a.budget or hmod.BUDGET.get(a.tier, 600)
    deadline = t0 + budget
    jobs = [(hname, i, a.tier, seed, deadline) for i in insts]
    log('%d instances, %d workers, tier=%s, budget=%ds' % (len(jobs), a.jobs, a.tier, budget))
    results = []
    ctxm = mp.get_context('fork')
    byname = {i['name']: i for i in insts}
    with ctxm.Pool(min(a.jobs, 16)) as pool:
        pending = jobs
        hard = deadline + 90          # a single path may overrun the soft deadline; this is the hard stop
        timed_out = False
        while pending and not timed_out:
            nxt = []
            it = pool.imap_unordered(_worker, pending, chunksize=1)
            got = 0
            while got < len(pending):
                try:
                    r = it.next(timeout=max(1.0, hard - time.time()))
                except mp.TimeoutError:
                    log('HARD TIMEOUT: %d instances did not finish within the budget; terminating workers' % (len(pending) - got))
                    results.append({'instance': 'unfinished', 'error': 'hard timeout: %d instances unfinished' % (len(pending) - got)})
                    timed_out = True
                    pool.terminate()
                    break
                got += 1
                results.append(r)
                if 'error' in r: log('instance %s ERROR %s' % (r['instance'], r['error'][-400:]))
                # an instance explored with a split depth hands back the sub-trees it did not enter
                for k, pfx in enumerate(r.get('prefixes') or []):
                    base = byname.get(r['instance'])
                    if base is None: continue
                    lvl = base.get('_level', 0) + 1
                    sub = dict(base, name='%s#%d' % (base['name'], k), _prefix=pfx, _level=lvl,
                               _split=(sum(1 for e in pfx if len(e) > 2 and e[2] and e[0] != 'vals') + base.get('_split_step', 6)) if lvl < 3 else None)
                    byname[sub['name']] = sub
                    nxt.append((hname, sub, a.tier, seed, deadline))
            if nxt and not timed_out: log('%d sub-trees dispatched' % len(nxt))
            pending = nxt
    return hmod.finish(pid, a.tier, seed, results, load_known(pid), time.time() - t0, th, log)

if __name__ == '__main__':
    sys.exit(main())
