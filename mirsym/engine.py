"""Symbolic interpreter for rustc MIR (see mir.py for the program representation).

Value model
  ints / chars        python int (normalised to the type's range) or z3 BitVec of the type's width
  bool                python bool or z3 Bool
  &str                python tuple of chars (concrete shape, symbolic content)
  String              RString  (mutable list of chars)
  Vec<T>, [T; N]      RVec     (mutable list)
  &[T]                Slice    (view lo..hi on a shared python list)
  struct/tuple/enum   Agg(tag, fields)
  &T / &mut T         Ref(container, key)   -> container[key]
  HashMap / HashSet   RMap (association list; symbolic-key lookups fork on equality)
  closures            Agg(('closure', span), captures) ; fn items FnItem(path)
"""
import re
import sys
import z3
from ctx import Ctx, Infeasible, Inconclusive
import mir as mirmod

sys.setrecursionlimit(20000)

class RustPanic(Exception):
    def __init__(self, msg, where=None):
        Exception.__init__(self, msg); self.msg = msg; self.where = where
class Unsupported(Exception):
    pass
class StepBudget(Exception):
    pass
class HangDetected(StepBudget):
    """a loop header was reached twice with an identical state: the loop cannot terminate"""
    pass

def state_sig(v, seen=None, depth=0):
    """structural signature of a value graph (used to recognise a repeated loop state)"""
    if seen is None: seen = {}
    if v is None or isinstance(v, (bool, int, float, str, bytes)): return v
    if is_sym(v): return ('z3', v.get_id())
    if isinstance(v, tuple): return tuple(state_sig(x, seen, depth + 1) for x in v)
    i = id(v)
    if i in seen: return ('cyc', seen[i])
    seen[i] = len(seen)
    if depth > 40: return ('deep',)
    if isinstance(v, RString): return ('S', tuple(state_sig(x, seen, depth + 1) for x in v.c))
    if isinstance(v, RVec): return ('V', tuple(state_sig(x, seen, depth + 1) for x in v.v))
    if isinstance(v, Agg):
        if isinstance(v.f, AutoFields): return ('auto',)
        return ('A', str(v.tag), tuple(state_sig(x, seen, depth + 1) for x in v.f))
    if isinstance(v, Ref):
        try: tgt = v.o[v.k]
        except (IndexError, KeyError): tgt = None
        return ('R', state_sig(tgt, seen, depth + 1))
    if isinstance(v, Slice): return ('L', v.lo, v.hi, tuple(state_sig(x, seen, depth + 1) for x in v.items()))
    if isinstance(v, RMap): return ('M', tuple((state_sig(k, seen, depth + 1), state_sig(x, seen, depth + 1)) for k, x in v.items))
    if isinstance(v, Opaque): return ('O', v.what, state_sig(v.data, seen, depth + 1) if isinstance(v.data, (tuple, list, dict)) is False else repr(v.data)[:200])
    if isinstance(v, list): return tuple(state_sig(x, seen, depth + 1) for x in v)
    d = getattr(v, '__dict__', None)
    if d is not None: return (type(v).__name__, tuple((k, state_sig(x, seen, depth + 1)) for k, x in sorted(d.items()) if k != 'f'))
    sl = getattr(type(v), '__slots__', None)
    if sl:
        # model objects with __slots__ (iterators over a parse tree ...): their scalar fields are part of the state,
        # otherwise an advancing iterator looks like a loop that makes no progress
        return (type(v).__name__, tuple((k, state_sig(getattr(v, k, None), seen, depth + 1)) for k in sl
                                        if isinstance(getattr(v, k, None), (int, str, bool, float, type(None)))))
    return (type(v).__name__,)
class EndPath(Exception):
    """a stub ends the path normally (what lies beyond is outside the harness's claim)"""
    def __init__(self, reason): Exception.__init__(self, reason); self.reason = reason
class SignFloat(float):
    """a float of which only the sign class (-1.0, 0.0, 1.0) is meaningful: a symbolic integer converted with `as f64`"""

class ProcessExit(Exception):
    def __init__(self, code): Exception.__init__(self, 'exit'); self.code = code

class RString:
    __slots__ = ('c',)
    def __init__(self, c=None): self.c = list(c) if c is not None else []
    def __repr__(self): return 'RString(%s)' % show_str(self.c)
class RVec:
    __slots__ = ('v',)
    def __init__(self, v=None): self.v = list(v) if v is not None else []
    def __repr__(self): return 'RVec(%r)' % (self.v,)
class Slice:
    __slots__ = ('l', 'lo', 'hi')
    def __init__(self, l, lo, hi): self.l = l; self.lo = lo; self.hi = hi
    def items(self): return self.l[self.lo:self.hi]
    def __len__(self): return self.hi - self.lo
    def __repr__(self): return 'Slice(%r)' % (self.items(),)
class Agg:
    __slots__ = ('tag', 'f')
    def __init__(self, tag, f): self.tag = tag; self.f = f
    def __repr__(self): return 'Agg(%r, %r)' % (self.tag, self.f)
class Ref:
    __slots__ = ('o', 'k')
    def __init__(self, o, k): self.o = o; self.k = k
    def get(self): return self.o[self.k]
    def set(self, v): self.o[self.k] = v
    def __repr__(self): return 'Ref(->%r)' % (self.o[self.k],)
class RMap:
    __slots__ = ('items', 'kind')
    def __init__(self, kind='map'): self.items = []; self.kind = kind   # items: [key, value] lists
    def __repr__(self): return 'RMap(%r)' % (self.items,)
class FnItem:
    __slots__ = ('path',)
    def __init__(self, path): self.path = path
    def __repr__(self): return 'FnItem(%s)' % self.path
class AutoFields(dict):
    """auto-vivifying field list for opaque std layouts we only pass through (Box<MaybeUninit<..>> of vec!)"""
    def __missing__(self, k):
        v = Agg('auto', AutoFields()); self[k] = v; return v
class Opaque:
    """a value we carry around but never look into (Stderr handle, DateTime, ...)"""
    __slots__ = ('what', 'data')
    def __init__(self, what, data=None): self.what = what; self.data = data
    def __repr__(self): return 'Opaque(%s)' % (self.what,)

UNIT = Agg(None, [])

def NONE(): return Agg('None', [])
def SOME(v): return Agg('Some', [v])
def OK(v): return Agg('Ok', [v])
def ERR(v): return Agg('Err', [v])
def TUP(*vs): return Agg(None, list(vs))

def is_sym(v): return isinstance(v, z3.ExprRef)

def show_str(chars):
    out = []
    for c in chars:
        if isinstance(c, int):
            try: out.append(chr(c))
            except Exception: out.append('\\x%x' % c)
        else:
            out.append('<%s>' % c)
    return '"' + ''.join(out) + '"'

def lit(s):
    return tuple(ord(c) for c in s)

DISCR = {'None': 0, 'Some': 1, 'Ok': 0, 'Err': 1, 'Less': -1, 'Equal': 0, 'Greater': 1,
         'Borrowed': 0, 'Owned': 1, 'Parent': 0, 'Child': 1, 'Continue': 0, 'Break': 1,
         'Left': 0, 'Right': 1}
VARIANT_BY_DISCR = {}

INT_TYPES = {'u8': (8, False), 'u16': (16, False), 'u32': (32, False), 'u64': (64, False), 'u128': (128, False),
             'usize': (64, False), 'i8': (8, True), 'i16': (16, True), 'i32': (32, True), 'i64': (64, True),
             'i128': (128, True), 'isize': (64, True), 'char': (32, False), 'bool': (1, False),
             'std::os::fd::RawFd': (32, True), 'RawFd': (32, True)}

def wrap(v, bits, signed):
    v &= (1 << bits) - 1
    if signed and v >= (1 << (bits - 1)):
        v -= (1 << bits)
    return v

def to_bv(v, bits):
    if is_sym(v):
        if z3.is_bool(v):
            return z3.If(v, z3.BitVecVal(1, bits), z3.BitVecVal(0, bits))
        return v
    if isinstance(v, bool): v = int(v)
    return z3.BitVecVal(v, bits)

def b_not(x):
    if isinstance(x, bool): return not x
    return z3.Not(x)
def b_and(*xs):
    ys = []
    for x in xs:
        if x is False: return False
        if x is True: continue
        ys.append(x)
    if not ys: return True
    return ys[0] if len(ys) == 1 else z3.And(*ys)
def b_or(*xs):
    ys = []
    for x in xs:
        if x is True: return True
        if x is False: continue
        ys.append(x)
    if not ys: return False
    return ys[0] if len(ys) == 1 else z3.Or(*ys)

def ch_eq(a, b):
    sa = is_sym(a); sb = is_sym(b)
    if not sa and not sb: return a == b
    if not sa: a = z3.BitVecVal(a, 32)
    if not sb: b = z3.BitVecVal(b, 32)
    if a.eq(b): return True
    return a == b

def str_eq(a, b):
    if len(a) != len(b): return False
    conds = []
    for x, y in zip(a, b):
        e = ch_eq(x, y)
        if e is False: return False
        if e is True: continue
        conds.append(e)
    return b_and(*conds)

def ch_in_range(c, lo, hi):
    if not is_sym(c): return lo <= c <= hi
    if lo == hi: return c == lo
    return z3.And(z3.UGE(c, lo), z3.ULE(c, hi))

_WS = [(9, 13), (32, 32), (0x85, 0x85), (0xA0, 0xA0), (0x1680, 0x1680), (0x2000, 0x200A), (0x2028, 0x2029),
       (0x202F, 0x202F), (0x205F, 0x205F), (0x3000, 0x3000)]
def ch_is_whitespace(c):
    """char::is_whitespace (Unicode White_Space)"""
    if not is_sym(c):
        return any(lo <= c <= hi for lo, hi in _WS)
    return z3.Or(*[ch_in_range(c, lo, hi) for lo, hi in _WS])

def deep_clone(v):
    if isinstance(v, RString): return RString(v.c)
    if isinstance(v, RVec): return RVec([deep_clone(x) for x in v.v])
    if isinstance(v, Agg):
        if isinstance(v.f, AutoFields): return v
        return Agg(v.tag, [deep_clone(x) for x in v.f])
    if isinstance(v, RMap):
        m = RMap(v.kind); m.items = [[deep_clone(k), deep_clone(x)] for k, x in v.items]; return m
    return v

def copy_val(v):
    if isinstance(v, Agg):
        if isinstance(v.f, AutoFields): return v
        return Agg(v.tag, [copy_val(x) for x in v.f])
    if isinstance(v, RVec): return RVec([copy_val(x) for x in v.v])
    return v

_TYPE_CACHE = {}
def prim(ty):
    """(bits, signed) for primitive int-like types, else None"""
    if ty is None: return None
    r = _TYPE_CACHE.get(ty)
    if r is None and ty not in _TYPE_CACHE:
        r = INT_TYPES.get(ty)
        _TYPE_CACHE[ty] = r
    return r

def strip_ref(ty):
    if ty is None: return None
    ty = ty.strip()
    if ty.startswith('&'):
        ty = ty[1:]
        if ty.startswith("'"):
            ty = ty.split(' ', 1)[1] if ' ' in ty else ty
        if ty.startswith('mut '): ty = ty[4:]
        return ty.strip()
    if ty.startswith('*const '): return ty[7:]
    if ty.startswith('*mut '): return ty[5:]
    if ty.startswith('Box<') or ty.startswith('std::boxed::Box<'):
        return ty[ty.index('<') + 1:-1]
    return ty

def tuple_elems(ty):
    if ty and ty.startswith('(') and ty.endswith(')'):
        return mirmod.split_top(ty[1:-1])
    return None

_SYMCHAR_CACHE = {}

class Frame:
    __slots__ = ('fn', 'L')
    def __init__(self, fn, L): self.fn = fn; self.L = L

class Interp:
    """one instance per explored path"""
    def __init__(self, ctx, prog, profile='dev', step_budget=2_000_000):
        self.ctx = ctx
        self.prog = prog            # Program (module + name resolution + models)
        self.profile = profile      # 'dev' (overflow checks panic) or 'release' (wrapping)
        self.steps = 0
        self.step_budget = step_budget
        self.globals = {}
        self.stack = []
        self.transcript = []        # (stream, text) of println!/eprintln!
        self.env = None             # environment stubs installed by the harness
        self.os = None
        self.stubs = {}             # callee name -> python callable overriding crate code / models
        self.trace_calls = None
        self.fn_entered = prog.fn_entered
        self.width_cache = {}
        self.nsym = 0
        self.loop_guard = {}
        self._fid = 0

    def fresh_id(self):
        self._fid += 1
        return self._fid

    # ---------------- symbolic inputs -------------------------------------------------------
    def sym_char(self, name, ascii_only=False, exclude=()):
        c = self.ctx.bv(name, 32)
        ck = (name, ascii_only, tuple(exclude))
        cond = _SYMCHAR_CACHE.get(ck)
        if cond is None:
            cs = [z3.ULT(c, 0x110000), z3.Or(z3.ULT(c, 0xD800), z3.UGT(c, 0xDFFF)), c != 0, c != 10]
            if ascii_only: cs.append(z3.ULT(c, 0x80))
            for x in exclude:
                cs.append(c != (ord(x) if isinstance(x, str) else x))
            cond = z3.And(*cs)
            _SYMCHAR_CACHE[ck] = cond
        self.ctx.assume(cond)
        self.ctx.inputs.append((name, c, 'char'))
        return c
    def sym_int(self, name, bits=32, lo=None, hi=None, signed=True):
        v = self.ctx.bv(name, bits)
        cs = []
        if lo is not None: cs.append(v >= lo if signed else z3.UGE(v, lo))
        if hi is not None: cs.append(v <= hi if signed else z3.ULE(v, hi))
        if cs: self.ctx.assume(z3.And(*cs))
        if lo is None or hi is None or hi - lo + 1 > 24:
            if not hasattr(self, 'wide_ints'): self.wide_ints = set()
            self.wide_ints.add(name)        # int_to_chars does not try to enumerate these
        self.ctx.inputs.append((name, v, 'int%s%d' % ('s' if signed else 'u', bits)))
        return v
    def sym_bool(self, name):
        v = self.ctx.boolvar(name)
        self.ctx.inputs.append((name, v, 'bool'))
        return v
    def choose(self, name, n):
        """environment's choice among n alternatives (solver's variable)"""
        if n <= 1: return 0
        bits = max(1, (n - 1).bit_length())
        v = self.ctx.bv(name, bits)
        if n != (1 << bits): self.ctx.assume(z3.ULT(v, n))
        self.ctx.inputs.append((name, v, 'choice'))
        for i in range(n - 1):
            if self.ctx.branch(v == i): return i
        return n - 1

    def branch(self, cond):
        return self.ctx.branch(cond)

    def concretize(self, v, limit=64):
        """fork over the feasible values of a small symbolic integer"""
        if not is_sym(v): return v
        if z3.is_bool(v): return self.ctx.branch(v)
        # the candidate values are recorded in the trail (re-execution must ask the same questions in the same order)
        vals = self.ctx.values_upto(v, limit)
        if vals is None:
            raise Inconclusive('concretize: more than %d values' % limit)
        for val in vals[:-1]:
            if self.ctx.branch(v == val):
                return val
        return vals[-1]

    def char_width(self, c):
        if not is_sym(c):
            return 1 if c < 0x80 else 2 if c < 0x800 else 3 if c < 0x10000 else 4
        if self.ctx.branch(z3.ULT(c, 0x80)): return 1
        if self.ctx.branch(z3.ULT(c, 0x800)): return 2
        if self.ctx.branch(z3.ULT(c, 0x10000)): return 3
        return 4
    def byte_len(self, chars):
        n = 0
        for c in chars: n += self.char_width(c)
        return n

    # ---------------- value helpers ---------------------------------------------------------
    def deref(self, v):
        while isinstance(v, Ref):
            v = v.o[v.k]
        return v
    def str_of(self, v):
        v = self.deref(v)
        if isinstance(v, RString): return tuple(v.c)
        if isinstance(v, tuple): return v
        if isinstance(v, Agg) and v.tag == 'Cow': return self.str_of(v.f[0])
        if isinstance(v, Opaque) and v.what in ('OsString', 'PathBuf', 'Path', 'CString'): return tuple(v.data)
        raise Unsupported('str_of %r' % (v,))
    def list_of(self, v):
        v = self.deref(v)
        if isinstance(v, RVec): return v.v
        if isinstance(v, Slice): return v.items()
        if isinstance(v, tuple): return list(v)
        raise Unsupported('list_of %r' % (v,))
    def mkstring(self, chars): return RString(chars)
    def panic(self, msg):
        raise RustPanic(msg, self.where())
    def where(self):
        return [f.fn.name for f in self.stack[-6:]]

    def println(self, stream, chars):
        self.transcript.append((stream, chars))

    # ---------------- types of operands -----------------------------------------------------
    def place_type(self, fn, place):
        loc, proj = place
        ty = fn.types.get(loc)
        for p in proj:
            k = p[0]
            if k == 'deref': ty = strip_ref(ty)
            elif k == 'field': ty = p[2]
            elif k == 'downcast': pass
            elif k in ('index', 'cindex'):
                if ty is None: return None
                t = ty.strip()
                if t.startswith('['):
                    inner = t[1:-1]
                    parts = mirmod.split_top(inner, ';')
                    ty = parts[0]
                else:
                    return None
            else: return None
        return ty
    def operand_prim(self, fn, op):
        key = (fn.name, op)
        c = self.prog.optype_cache
        r = c.get(key, 0)
        if r != 0: return r
        if op[0] == 'const':
            m = mirmod._INT_CONST.match(op[1])
            if m: r = INT_TYPES[m.group(2)]
            elif op[1] in ('true', 'false'): r = (1, False)
            elif op[1].startswith("'"): r = (32, False)
            else: r = None
        elif op[0] in ('copy', 'move'):
            r = prim(self.place_type(fn, op[1]))
        else: r = None
        c[key] = r
        return r

    # ---------------- constants -------------------------------------------------------------
    def const(self, fn, text):
        c = self.prog.const_cache.get(text)
        if c is not None:
            return c[0]
        v = self._const(fn, text)
        if not isinstance(v, (RString, RVec, Agg, RMap)) or v is UNIT:
            self.prog.const_cache[text] = (v,)
        return v
    def _const(self, fn, s):
        if s == 'true': return True
        if s == 'false': return False
        if s == '()': return UNIT
        m = mirmod._INT_CONST.match(s)
        if m: return int(m.group(1))
        if s.startswith('"'):
            return tuple(ord(c) for c in unescape(s[1:-1]))
        if s.startswith("'"):
            return ord(unescape(s[1:-1]))
        if s.startswith('b"'):
            return bytes(ord(c) for c in unescape(s[2:-1]))
        if s.startswith("b'"):
            return ord(unescape(s[2:-1]))
        if s.startswith('ZeroSized: '):
            t = s[11:]
            if t.startswith('{closure@'):
                return Agg(('closure', t[1:-1]), [])
            return FnItem(t)
        m = mirmod._FLOAT_CONST.match(s)
        if m:
            return float(m.group(1).replace('inf', 'inf'))
        if s.endswith(']') and 'promoted[' in s:
            # promoted constant: evaluate its body once per path
            return self.global_value(self.prog.resolve_promoted(fn, s))
        if s.startswith('{alloc') or s.startswith('{'):
            return self.prog.const_alloc(self, fn, s)
        if s == '[]': return RVec([])
        if s == 'RangeFull': return Agg('RangeFull', [])
        # named constant / static of the crate
        nm = self.prog.resolve_const(fn, s)
        if nm is not None:
            return self.global_value(nm)
        m = re.match(r'^(.*)::MAX$', s)
        if m and m.group(1) in INT_TYPES:
            b, sg = INT_TYPES[m.group(1)]
            return (1 << (b - 1)) - 1 if sg else (1 << b) - 1
        m = re.match(r'^(.*)::MIN$', s)
        if m and m.group(1) in INT_TYPES:
            b, sg = INT_TYPES[m.group(1)]
            return -(1 << (b - 1)) if sg else 0
        v = self.prog.const_model(self, fn, s)
        if v is not NotImplemented: return v
        raise Unsupported('const ' + s)

    def global_value(self, name):
        if name in self.globals: return self.globals[name]
        r = self.prog.module.raw.get(name)
        if r is not None and r[0] == 'constval':
            v = self._const(None, r[2])
        else:
            f = self.prog.module.fn(name)
            if f is None: raise Unsupported('global ' + name)
            v = self.exec_fn(f, [])
        self.globals[name] = v
        return v

    # ---------------- places ----------------------------------------------------------------
    def locate(self, fr, place):
        """-> (container list/dict, key)"""
        loc, proj = place
        o = fr.L; k = loc
        for p in proj:
            kind = p[0]
            if kind == 'deref':
                v = o[k]
                if isinstance(v, Ref):
                    o = v.o; k = v.k
                else:
                    # by-value "reference" (str tuple, Slice, boxed value ...): stays where it is
                    pass
            elif kind == 'field':
                v = o[k]
                if isinstance(v, Agg):
                    o = v.f; k = p[1]
                elif isinstance(v, Ref) :
                    raise Unsupported('field of ref')
                else:
                    v2 = self.prog.field_of(self, v, p[1], p[2])
                    o = [v2]; k = 0
            elif kind == 'downcast':
                pass
            elif kind == 'index':
                v = o[k]; i = fr.L[p[1]]
                if is_sym(i): i = self.concretize(i)
                if isinstance(v, RVec): o = v.v; k = i
                elif isinstance(v, Slice): o = v.l; k = v.lo + i
                elif isinstance(v, tuple): o = list(v); k = i
                else: raise Unsupported('index of %r' % (v,))
                if not (0 <= k < len(o)): self.panic('index out of bounds')
            elif kind == 'cindex':
                v = o[k]
                lst = self.list_of(v) if not isinstance(v, RVec) else v.v
                i = p[1]
                if p[2]: i = len(lst) - i
                if isinstance(v, Slice): o = v.l; k = v.lo + i
                else: o = lst; k = i
            else:
                raise Unsupported('projection ' + kind)
        return o, k

    def read_place(self, fr, place):
        loc, proj = place
        if not proj: return fr.L[loc]
        o, k = self.locate(fr, place)
        return o[k]

    def operand(self, fr, op):
        k = op[0]
        if k == 'copy':
            loc, proj = op[1]
            v = fr.L[loc] if not proj else self.read_place(fr, op[1])
            if isinstance(v, (Agg, RVec)): return copy_val(v)
            return v
        if k == 'move':
            loc, proj = op[1]
            return fr.L[loc] if not proj else self.read_place(fr, op[1])
        if k == 'const':
            return self.const(fr.fn, op[1])
        if k == 'fn':
            return FnItem(op[1])
        raise Unsupported('operand ' + k)

    # ---------------- execution -------------------------------------------------------------
    def call_fn(self, name, args):
        """harness entry: call a crate function by (resolved) name"""
        f = self.prog.lookup(name)
        if f is None: raise Unsupported('no such function ' + name)
        return self.exec_fn(f, args)

    def exec_fn(self, fn, args):
        nloc = self.prog.nlocals(fn)
        L = [None] * nloc
        for i, a in enumerate(args): L[i + 1] = a
        fr = Frame(fn, L)
        self.stack.append(fr)
        self.fn_entered.add(fn.name)
        if len(self.stack) > 400: raise Inconclusive('call depth')
        blocks = fn.blocks
        bb = 0
        ctx = self.ctx
        visits = None
        try:
            while True:
                blk = blocks[bb]
                if visits is None: visits = {}
                vc = visits.get(bb, 0) + 1
                visits[bb] = vc
                if (3 <= vc <= 6) or (vc >= 16 and vc % 16 == 0):
                    sigs = visits.setdefault('sigs', {})
                    sg = (bb, ctx.nfork, len(ctx.inputs), state_sig(L))
                    if sg in sigs:
                        raise HangDetected('loop state repeats in ' + fn.name)
                    sigs[sg] = 1
                self.steps += len(blk)
                if self.steps > self.step_budget:
                    raise StepBudget('step budget exhausted in ' + fn.name)
                for st in blk:
                    kind = st[0]
                    if kind == 'assign':
                        (loc, proj) = st[1]
                        val = self.rvalue(fr, st[2], st[1])
                        if not proj: L[loc] = val
                        else:
                            o, k = self.locate(fr, st[1]); o[k] = val
                    elif kind == 'call':
                        _, dest, callee, argops, ret_bb, callee_op = st
                        argv = [self.operand(fr, a) for a in argops]
                        if callee_op is not None:
                            fv = self.operand(fr, callee_op)
                            val = self.call_value(fv, argv)
                        else:
                            val = self.call(fr, callee, argv)
                        if ret_bb is None:
                            raise Unsupported('diverging call returned: ' + callee)
                        loc, proj = dest
                        if not proj: L[loc] = val
                        else:
                            o, k = self.locate(fr, dest); o[k] = val
                        bb = ret_bb; break
                    elif kind == 'goto':
                        bb = st[1]; break
                    elif kind == 'switch':
                        v = self.operand(fr, st[1])
                        if isinstance(v, bool): v = int(v)
                        if isinstance(v, int):
                            tgt = st[3]
                            for val, b in st[2]:
                                if val == v: tgt = b; break
                            else:
                                # negative discriminants are printed as unsigned
                                if v < 0:
                                    for val, b in st[2]:
                                        if val >= 128 and (val - 256 == v or val - (1 << 64) == v or val - (1 << 32) == v or val - (1 << 16) == v or val - (1 << 128) == v):
                                            tgt = b; break
                            bb = tgt; break
                        if z3.is_bool(v):
                            t = ctx.branch(v)
                            tv = 1 if t else 0
                            tgt = st[3]
                            for val, b in st[2]:
                                if val == tv: tgt = b; break
                            bb = tgt; break
                        # bit-vector
                        tgt = None
                        pr = self.operand_prim(fn, st[1])
                        for val, b in st[2]:
                            vv = val
                            if ctx.branch(v == z3.BitVecVal(vv, v.size())):
                                tgt = b; break
                        if tgt is None: tgt = st[3]
                        bb = tgt; break
                    elif kind == 'drop':
                        self.drop(self.read_place(fr, st[1]))
                        bb = st[2]; break
                    elif kind == 'return':
                        return L[0] if L[0] is not None else UNIT
                    elif kind == 'assert':
                        _, expected, op, msg, extra, succ = st
                        v = self.operand(fr, op)
                        if not expected: v = b_not(v)
                        if v is not True:
                            overflow = msg.startswith('attempt to') and 'divi' not in msg and 'remainder' not in msg
                            if overflow and self.profile == 'release':
                                pass
                            elif v is False:
                                self.panic(msg)
                            elif not ctx.branch(v):
                                self.panic(msg)
                        bb = succ; break
                    elif kind == 'nop':
                        pass
                    elif kind == 'setdiscr':
                        raise Unsupported('SetDiscriminant')
                    elif kind == 'unreachable':
                        raise Unsupported('unreachable reached in ' + fn.name)
                    elif kind == 'resume':
                        raise Unsupported('resume reached')
                    else:
                        raise Unsupported('stmt ' + kind)
                else:
                    raise Unsupported('block without terminator')
        except (Unsupported, StepBudget) as u:
            if not hasattr(u, 'where'):
                u.where = [f.fn.name for f in self.stack[-5:]]
            raise
        finally:
            self.stack.pop()

    def drop(self, v):
        if isinstance(v, Opaque) and v.what == 'File':
            self.prog.drop_file(self, v)
        elif isinstance(v, Agg) and not isinstance(v.f, AutoFields):
            for x in v.f:
                if isinstance(x, (Opaque, Agg)): self.drop(x)

    def call_value(self, fv, argv):
        fv = self.deref(fv)
        if isinstance(fv, FnItem):
            return self.call(self.stack[-1], fv.path, argv)
        if isinstance(fv, Agg) and isinstance(fv.tag, tuple) and fv.tag[0] == 'closure':
            return self.call_closure(fv, argv)
        raise Unsupported('call of %r' % (fv,))

    def call_closure(self, clo, args):
        """clo: closure Agg (or ref to it) / FnItem; args: python list of argument values"""
        c = self.deref(clo)
        if isinstance(c, FnItem):
            return self.call(self.stack[-1], c.path, list(args))
        if isinstance(c, Agg) and isinstance(c.tag, tuple) and c.tag[0] == 'closure':
            f = self.prog.closure_fn(c.tag[1])
            if f is None: raise Unsupported('closure body ' + c.tag[1])
            selfarg = clo if isinstance(clo, Ref) else Ref([c], 0)
            if f.argtypes and not f.argtypes[0].lstrip().startswith('&'):
                selfarg = c
            return self.exec_fn(f, [selfarg] + list(args))
        raise Unsupported('call_closure %r' % (c,))

    def call(self, fr, callee, argv):
        prog = self.prog
        tgt = prog.call_cache.get((fr.fn.name, callee))
        if tgt is None:
            tgt = prog.resolve_call(fr.fn, callee)
            prog.call_cache[(fr.fn.name, callee)] = tgt
        kind, obj, key = tgt
        st = self.stubs
        if st:
            h = st.get(key)
            if h is not None:
                return h(self, argv, callee)
        if kind == 'fn':
            if st:
                h = st.get(obj.name)
                if h is not None:
                    return h(self, argv, callee)
            return self.exec_fn(obj, argv)
        if kind == 'model':
            return obj(self, argv, callee)
        raise Unsupported('call ' + callee + '   [' + key + ']')

    # ---------------- rvalues ---------------------------------------------------------------
    def rvalue(self, fr, rv, dest):
        k = rv[0]
        if k == 'use':
            return self.operand(fr, rv[1])
        if k == 'ref':
            loc, proj = rv[1]
            if not proj: return Ref(fr.L, loc)
            if proj[-1] == ('deref',):
                # reborrow: &*x  == x for Ref values and by-value refs
                v = self.read_place(fr, (loc, proj[:-1]))
                if isinstance(v, Ref): return v
                if isinstance(v, (tuple, Slice, bytes)): return v
                o, kk = self.locate(fr, (loc, proj[:-1]))
                return Ref(o, kk)
            o, kk = self.locate(fr, rv[1])
            return Ref(o, kk)
        if k == 'binop':
            a = self.operand(fr, rv[2]); b = self.operand(fr, rv[3])
            return self.binop(fr, rv[1], a, b, rv[2], rv[3])
        if k == 'discr':
            v = self.deref(self.read_place(fr, rv[1]))
            return self.discriminant(v)
        if k == 'tuple':
            return Agg(None, [self.operand(fr, o) for o in rv[1]])
        if k == 'adt':
            path = rv[1]
            fields = [self.operand(fr, o) for _, o in rv[2]]
            return self.prog.make_adt(self, path, fields, [n for n, _ in rv[2]])
        if k == 'cast':
            v = self.operand(fr, rv[1])
            return self.cast(fr, v, rv[1], rv[2], rv[3])
        if k == 'unop':
            a = self.operand(fr, rv[2]); op = rv[1]
            if op == 'Not':
                if isinstance(a, bool): return not a
                if is_sym(a):
                    return z3.Not(a) if z3.is_bool(a) else ~a
                pr = self.operand_prim(fr.fn, rv[2])
                if pr is None: raise Unsupported('Not on untyped int')
                return wrap(~a, pr[0], pr[1])
            if op == 'Neg':
                if is_sym(a): return -a
                if isinstance(a, float): return -a
                pr = self.operand_prim(fr.fn, rv[2])
                return wrap(-a, pr[0], pr[1]) if pr else -a
            if op == 'PtrMetadata':
                v = self.deref(a)
                if isinstance(v, (tuple, Slice)): return len(v)
                if isinstance(v, (RVec,)): return len(v.v)
                raise Unsupported('PtrMetadata')
            raise Unsupported('unop ' + op)
        if k == 'array':
            return RVec([self.operand(fr, o) for o in rv[1]])
        if k == 'closure':
            return Agg(('closure', rv[1]), [self.operand(fr, o) for _, o in rv[2]])
        if k == 'rawref':
            o, kk = self.locate(fr, rv[1])
            return Ref(o, kk)
        if k == 'len':
            v = self.deref(self.read_place(fr, rv[1]))
            return len(self.list_of(v))
        if k == 'copyderef':
            return self.read_place(fr, rv[1])
        if k == 'repeat':
            v = self.operand(fr, rv[1])
            n = rv[2]
            m = re.match(r'(?:const )?(\d+)(_usize)?$', n)
            if not m: raise Unsupported('repeat count ' + n)
            return RVec([copy_val(v) for _ in range(int(m.group(1)))])
        if k == 'nullop':
            if rv[1].startswith('UbChecks') or rv[1].startswith('ContractChecks'): return False
            raise Unsupported('nullop ' + rv[1])
        raise Unsupported('rvalue ' + k)

    def discriminant(self, v):
        if isinstance(v, int) or is_sym(v):
            return v          # C-like enums with explicit values (Signal, ...) are carried as their integer value
        if isinstance(v, Agg):
            t = v.tag
            d = DISCR.get(t)
            if d is not None: return d
            d = self.prog.variant_index(t)
            if d is not None: return d
            raise Unsupported('discriminant of %r' % (t,))
        if isinstance(v, Opaque) and isinstance(v.data, dict) and 'discr' in v.data:
            return v.data['discr']
        raise Unsupported('discriminant of %r' % (v,))

    def binop(self, fr, op, a, b, oa, ob):
        if isinstance(a, float) or isinstance(b, float):
            return self.float_binop(op, a, b)
        if isinstance(a, Ref) or isinstance(b, Ref):
            if op == 'Eq': return a.o is b.o and a.k == b.k
            if op == 'Ne': return not (a.o is b.o and a.k == b.k)
            raise Unsupported('pointer binop ' + op)
        sa = is_sym(a); sb = is_sym(b)
        if not sa and not sb:
            if isinstance(a, bool) or isinstance(b, bool):
                a = int(a); b = int(b)
                isb = True
            else: isb = False
            if op == 'Eq': return a == b
            if op == 'Ne': return a != b
            if op == 'Lt': return a < b
            if op == 'Le': return a <= b
            if op == 'Gt': return a > b
            if op == 'Ge': return a >= b
            if op == 'Cmp': return Agg('Less' if a < b else 'Greater' if a > b else 'Equal', [])
            if isb:
                if op == 'BitAnd': return bool(a & b)
                if op == 'BitOr': return bool(a | b)
                if op == 'BitXor': return bool(a ^ b)
            pr = self.operand_prim(fr.fn, oa) or self.operand_prim(fr.fn, ob)
            if pr is None:
                raise Unsupported('untyped int binop %s in %s' % (op, fr.fn.name))
            bits, sg = pr
            if op in ('Add', 'AddUnchecked'): return wrap(a + b, bits, sg)
            if op in ('Sub', 'SubUnchecked'): return wrap(a - b, bits, sg)
            if op in ('Mul', 'MulUnchecked'): return wrap(a * b, bits, sg)
            if op == 'AddWithOverflow':
                r = a + b; w = wrap(r, bits, sg); return Agg(None, [w, w != r])
            if op == 'SubWithOverflow':
                r = a - b; w = wrap(r, bits, sg); return Agg(None, [w, w != r])
            if op == 'MulWithOverflow':
                r = a * b; w = wrap(r, bits, sg); return Agg(None, [w, w != r])
            if op == 'Div':
                if b == 0: self.panic('attempt to divide by zero')
                q = abs(a) // abs(b)
                if (a < 0) != (b < 0): q = -q
                return wrap(q, bits, sg)
            if op == 'Rem':
                if b == 0: self.panic('attempt to calculate the remainder with a divisor of zero')
                r = abs(a) % abs(b)
                if a < 0: r = -r
                return wrap(r, bits, sg)
            if op == 'BitAnd': return wrap(a & b, bits, sg)
            if op == 'BitOr': return wrap(a | b, bits, sg)
            if op == 'BitXor': return wrap(a ^ b, bits, sg)
            if op in ('Shl', 'ShlUnchecked'): return wrap(a << (b % bits), bits, sg)
            if op in ('Shr', 'ShrUnchecked'): return wrap(a >> (b % bits), bits, sg)
            raise Unsupported('binop ' + op)
        # symbolic
        if (sa and z3.is_bool(a)) or (sb and z3.is_bool(b)) or ((isinstance(a, bool) or isinstance(b, bool))):
            A = a if sa and z3.is_bool(a) else (z3.BoolVal(bool(a)) if not sa else a)
            B = b if sb and z3.is_bool(b) else (z3.BoolVal(bool(b)) if not sb else b)
            if op == 'Eq': return A == B
            if op == 'Ne': return A != B
            if op == 'BitAnd': return b_and(a if not sa else A, b if not sb else B) if True else None
            if op == 'BitOr': return b_or(a if not sa else A, b if not sb else B)
            if op == 'BitXor': return z3.Xor(A, B)
            raise Unsupported('bool binop ' + op)
        bits = a.size() if sa else b.size()
        pr = self.operand_prim(fr.fn, oa) or self.operand_prim(fr.fn, ob)
        sg = pr[1] if pr else False
        if op in ('Shl', 'Shr', 'ShlUnchecked', 'ShrUnchecked') and sa and sb and a.size() != b.size():
            b = z3.ZeroExt(a.size() - b.size(), b) if b.size() < a.size() else z3.Extract(a.size() - 1, 0, b)
        A = to_bv(a, bits); B = to_bv(b, bits)
        if op == 'Eq': return A == B
        if op == 'Ne': return A != B
        if op == 'Lt': return A < B if sg else z3.ULT(A, B)
        if op == 'Le': return A <= B if sg else z3.ULE(A, B)
        if op == 'Gt': return A > B if sg else z3.UGT(A, B)
        if op == 'Ge': return A >= B if sg else z3.UGE(A, B)
        if op in ('Add', 'AddUnchecked'): return A + B
        if op in ('Sub', 'SubUnchecked'): return A - B
        if op in ('Mul', 'MulUnchecked'): return A * B
        if op == 'AddWithOverflow':
            ovf = z3.Not(z3.And(z3.BVAddNoOverflow(A, B, sg), z3.BVAddNoUnderflow(A, B))) if sg else z3.Not(z3.BVAddNoOverflow(A, B, False))
            return Agg(None, [A + B, ovf])
        if op == 'SubWithOverflow':
            ovf = z3.Not(z3.And(z3.BVSubNoOverflow(A, B), z3.BVSubNoUnderflow(A, B, sg))) if sg else z3.Not(z3.BVSubNoUnderflow(A, B, False))
            return Agg(None, [A - B, ovf])
        if op == 'MulWithOverflow':
            ovf = z3.Not(z3.And(z3.BVMulNoOverflow(A, B, sg), z3.BVMulNoUnderflow(A, B))) if sg else z3.Not(z3.BVMulNoOverflow(A, B, False))
            return Agg(None, [A * B, ovf])
        if op == 'Div':
            if self.ctx.branch(B == 0): self.panic('attempt to divide by zero')
            return A / B if sg else z3.UDiv(A, B)
        if op == 'Rem':
            if self.ctx.branch(B == 0): self.panic('attempt to calculate the remainder with a divisor of zero')
            return z3.SRem(A, B) if sg else z3.URem(A, B)
        if op == 'BitAnd': return A & B
        if op == 'BitOr': return A | B
        if op == 'BitXor': return A ^ B
        if op in ('Shl', 'ShlUnchecked'): return A << B
        if op in ('Shr', 'ShrUnchecked'): return (A >> B) if sg else z3.LShR(A, B)
        if op == 'Cmp':
            lt = A < B if sg else z3.ULT(A, B)
            if self.ctx.branch(lt): return Agg('Less', [])
            if self.ctx.branch(A == B): return Agg('Equal', [])
            return Agg('Greater', [])
        raise Unsupported('symbolic binop ' + op)

    def float_binop(self, op, a, b):
        if isinstance(a, SignFloat) or isinstance(b, SignFloat):
            # an abstracted float (only its sign class is known) may only be divided by a zero: everything else would be a guess
            if not (op == 'Div' and isinstance(a, SignFloat) and not isinstance(b, SignFloat) and float(b) == 0.0):
                raise Unsupported('arithmetic on a symbolic integer converted to a float (only `x as f64 / 0.0` is modelled)')
        a = float(a); b = float(b)
        if op == 'Add': return a + b
        if op == 'Sub': return a - b
        if op == 'Mul': return a * b
        if op == 'Div':
            if b == 0.0:
                if a == 0.0 or a != a: return float('nan')
                import math
                neg = (a < 0) != (math.copysign(1.0, b) < 0)
                return float('-inf') if neg else float('inf')
            return a / b
        if op == 'Eq': return a == b
        if op == 'Ne': return a != b
        if op == 'Lt': return a < b
        if op == 'Le': return a <= b
        if op == 'Gt': return a > b
        if op == 'Ge': return a >= b
        raise Unsupported('float binop ' + op)

    def cast(self, fr, v, op, ty, kind):
        if kind.startswith('PointerCoercion') or kind in ('PtrToPtr', 'Transmute', 'FnPtrToPtr'):
            if kind.startswith('PointerCoercion(Unsize'):
                d = self.deref(v)
                if isinstance(d, RVec) and isinstance(v, Ref):
                    return Slice(d.v, 0, len(d.v))       # &[T; N] -> &[T]
            return v
        if kind == 'IntToInt':
            src = self.operand_prim(fr.fn, op)
            dst = prim(ty)
            if dst is None: raise Unsupported('cast to ' + ty)
            if isinstance(v, bool): v = int(v)
            if isinstance(v, Agg):
                v = self.discriminant(v)
            if not is_sym(v): return wrap(v, dst[0], dst[1])
            if z3.is_bool(v): v = z3.If(v, z3.BitVecVal(1, 8), z3.BitVecVal(0, 8)); src = (8, False)
            sb = v.size()
            if dst[0] == sb: return v
            if dst[0] < sb: return z3.Extract(dst[0] - 1, 0, v)
            ssg = src[1] if src else False
            return z3.SignExt(dst[0] - sb, v) if ssg else z3.ZeroExt(dst[0] - sb, v)
        if kind == 'IntToFloat':
            if is_sym(v):
                # few feasible values: fork over them (exact).  Otherwise only the sign class survives, as a SignFloat that
                # can be used for `x as f64 / 0.0` and nothing else (any other use is Unsupported = inconclusive, never a guess)
                src = self.operand_prim(fr.fn, op)
                vals = self.ctx.values_upto(v, 80)
                if vals is not None:
                    bits = v.size()
                    for x in vals[:-1]:
                        if self.ctx.branch(v == z3.BitVecVal(x, bits)):
                            return float(x - (1 << bits) if (src and src[1] and x >= (1 << (bits - 1))) else x)
                    x = vals[-1]
                    return float(x - (1 << bits) if (src and src[1] and x >= (1 << (bits - 1))) else x)
                if src and src[1] and self.ctx.branch(v < 0): return SignFloat(-1.0)
                if self.ctx.branch(v == 0): return SignFloat(0.0)
                return SignFloat(1.0)
            return float(v)
        if kind == 'FloatToInt':
            if isinstance(v, SignFloat): raise Unsupported('symbolic integer converted to a float and back')
            dst = prim(ty)
            if v != v: return 0
            lo = -(1 << (dst[0] - 1)) if dst[1] else 0
            hi = (1 << (dst[0] - 1)) - 1 if dst[1] else (1 << dst[0]) - 1
            if v == float('inf'): return hi
            if v == float('-inf'): return lo
            return max(lo, min(hi, int(v)))
        if kind == 'FloatToFloat': return v
        if kind in ('PointerExposeProvenance', 'PointerWithExposedProvenance'):
            return v
        raise Unsupported('cast kind ' + kind)

def unescape(s):
    """Rust string-literal body as printed by the MIR pretty printer -> python str"""
    out = []; i = 0; n = len(s)
    while i < n:
        c = s[i]
        if c != '\\':
            out.append(c); i += 1; continue
        d = s[i + 1]
        if d == 'n': out.append('\n'); i += 2
        elif d == 't': out.append('\t'); i += 2
        elif d == 'r': out.append('\r'); i += 2
        elif d == '0': out.append('\0'); i += 2
        elif d == '\\': out.append('\\'); i += 2
        elif d == '"': out.append('"'); i += 2
        elif d == "'": out.append("'"); i += 2
        elif d == 'x':
            out.append(chr(int(s[i + 2:i + 4], 16))); i += 4
        elif d == 'u':
            j = s.index('}', i)
            out.append(chr(int(s[i + 3:j], 16))); i = j + 1
        else:
            raise Unsupported('escape ' + s[i:i + 4])
    return ''.join(out)
