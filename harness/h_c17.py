"""C17 - aliases replace exactly the command word, once; listing recreates; unalias removes exactly one.

Encoded (MIR): execute::{run_command_line, run_proc}, parser_line::{line_to_cmds, parse_line}, CommandLine::from_line with
every expansion pass (shell::expand_alias among them), builtins::{alias,unalias}::run, tools::unquote, the alias table
methods of Shell.  core::run_pipeline is a harness function: `alias` / `unalias` go to the REAL builtins (capture mode, so
their output is a string), any other command line is recorded as the plan (argv, redirections, background) it would run.
Inductive step: an arbitrary table {o -> `oo x`} (+ optionally an older definition of the same name) -> ONE definition
with symbolic name and symbolic value characters -> (1) the table holds exactly the written value, (2) METAMORPHIC use
oracle: the plans of a use line under the alias equal the plans of the same line with the value written in place of the
command word, evaluated by the same code with an empty table, (3) the text printed by `alias` / `alias NAME`, fed to a
fresh shell, recreates the table; unalias with a symbolic operand removes exactly that name."""
import itertools, json, os, shutil, subprocess, tempfile
import z3
import hsupport, hlib, explore, models_env
from engine import (lit, Ref, Agg, RString, RVec, RMap, Slice, is_sym, str_eq, b_and, b_or, OK, ERR, TUP, ProcessExit, Opaque, ch_in_range)
from explore import expect, conc, Violation

PROPERTY = 'C17'
CICADA = os.path.join(hsupport.VERIF, 'build/bin/debug/cicada')
HELPERS = os.path.join(hsupport.VERIF, 'helpers/bin')
BUDGET = {'quick': 900, 'thorough': 1500}
BOUNDS = {'quick': dict(name_len=1, s_len=1), 'thorough': dict(name_len=2, s_len=1)}
ASSUMPTIONS = [
    'inductive step: table {o -> `oo x`} (+ optionally an older definition of the same name = redefinition) -> one `alias NAME=VALUE` line; NAME: name_len symbolic characters of [A-Za-z0-9_.-]; VALUE: templates {S | "S" S | S | S (pipe) | o S (other alias) | NAME -S (itself)} with S = s_len symbolic characters, written in single quotes, double quotes or bare',
    'S excludes both quote characters (the templates supply balanced quotes of the other kind), $ ` \\ ! ; & ( ) # and every white space except the blank (substitutions and list operators inside alias values are outside the property\'s alphabet; other white space only matters through trimming of the reference line); bare values additionally exclude blank | < > * ? [ ] { } ~ =',
    'use shapes: `N a1`, `c0 | N a1`, `c0 N` (must stay), `c0 ; N a1`, `c0 && N`, `N | N`, `c0 a1 | c1 N`, `c0 "|" N` and `c0 \'|\' N a1` (a quoted bar is an argument: N must stay); the reference side is the same real code run on the line with the value text written in place of N, alias table empty (so replacement is applied once)',
    'names and values that tools::is_arithmetic classifies as arithmetic lines (`-0`, `1-1`, `0 - `) are excluded (C19)',
    'core::run_pipeline is a harness function (alias / unalias -> real builtins in capture mode; other lines recorded); glob answers empty; execution of the plan is C01/C02',
]
WS = "\t\n\r\x0b\x0c\x85\xa0\u1680\u2000\u2001\u2002\u2003\u2004\u2005\u2006\u2007\u2008\u2009\u200a\u2028\u2029\u202f\u205f\u3000"
COMMON_EX = "'\"$`\\!;&()#" + WS
Q_EX = {"'": COMMON_EX, '"': COMMON_EX, '': COMMON_EX + " |<>*?[]{}~="}
VTS = ['S', 'dqS', 'pipe', 'other', 'self']
USES = ['N a1', 'c0 | N a1', 'c0 N', 'c0 ; N a1', 'c0 && N', 'N | N', 'c0 a1 | c1 N', 'c0 "|" N', "c0 '|' N a1"]
HEADS = {'N a1': [0], 'c0 | N a1': [0], 'c0 N': [], 'c0 ; N a1': [0], 'c0 && N': [0], 'N | N': [0, 1], 'c0 a1 | c1 N': []}

def instances(tier, seed):
    out = []
    for q in ("'", '"', ''):
        for vt in VTS:
            if q == '' and vt != 'S': continue
            if vt == 'dqS' and q == '"': vt_ = 'sqS'
            else: vt_ = vt
            for u in USES:
                if tier == 'quick' and vt_ != 'S' and u not in ('N a1', 'c0 | N a1', 'c0 && N', 'c0 N', 'c0 "|" N'): continue
                for redef in (False, True):
                    if redef and u != 'N a1': continue
                    out.append(dict(name='define/%s/%s/%s%s' % ({"'": 'sq', '"': 'dq', '': 'bare'}[q], vt_, u.replace(' ', '_'), '/redef' if redef else ''), kind='define', q=q, vt=vt_, use=u, redef=redef))
    for q in ("'", '"'):
        for vt in ('S', 'dqS' if q == "'" else 'sqS', 'pipe'):
            out.append(dict(name='list/%s/%s' % ({"'": 'sq', '"': 'dq'}[q], vt), kind='list', q=q, vt=vt))
    for o in out:
        if o.get('vt') in ('pipe', 'dqS', 'sqS'): o['_split'] = 5
    out.append(dict(name='unalias', kind='unalias'))
    out.append(dict(name='usage-errors', kind='usage'))
    return out

def sym_name(I, tag, n):
    cs = []
    for i in range(n):
        c = I.sym_char('%s%d' % (tag, i), ascii_only=True)
        I.ctx.assume(z3.Or(ch_in_range(c, 65, 90), ch_in_range(c, 97, 122), ch_in_range(c, 48, 57), c == 95, c == 46, c == 45))
        cs.append(c)
    return tuple(cs)

def mk_value(I, inst, b, name):
    q = inst['q']; ex = Q_EX[q]
    S = lambda tag: [I.sym_char('%s%d' % (tag, i), exclude=ex) for i in range(b['s_len'])]
    vt = inst['vt']
    if vt == 'S': return S('s')
    if vt == 'dqS': return list(lit('"')) + S('s') + list(lit('" ')) + S('t')
    if vt == 'sqS': return list(lit("'")) + S('s') + list(lit("' ")) + S('t')
    if vt == 'pipe': return S('s') + list(lit(' | ')) + S('t')
    if vt == 'other': return list(lit('o ')) + S('s')
    if vt == 'self': return list(name) + list(lit(' -')) + S('s')

def install(I, plans):
    p = I.prog
    def rp_stub(I_, a, c):
        cl = I.deref(a[1])
        cmds = hlib.field(p, cl, 'commands')
        cmd0 = I.deref(cmds.v[0])
        toks = hlib.tokens_of(I, hlib.field(p, cmd0, 'tokens'))
        name = ''.join(chr(x) if not is_sym(x) else '?' for x in toks[0][1]) if toks else ''
        if name == 'alias' and len(cmds.v) == 1:
            return TUP(False, I.call_fn('builtins::alias::run', [a[0], a[1], Ref(cmds.v, 0), True]))
        if name == 'unalias' and len(cmds.v) == 1:
            return TUP(False, I.call_fn('builtins::unalias::run', [a[0], a[1], Ref(cmds.v, 0), True]))
        plans.append(hlib.plan_of(I, cl))
        return TUP(False, hlib.mk_struct(p, 'CommandResult', gid=0, status=0, stdout=RString(), stderr=RString()))
    I.stubs['run_pipeline'] = rp_stub; I.stubs['core::run_pipeline'] = rp_stub

def table_of(I, sh):
    return [(I.str_of(k), I.str_of(v)) for k, v in hlib.field(I.prog, sh, 'aliases').items]

def plans_equal(I, A, B):
    """symbolic equality of two lists of plans (argv texts, redirections, background); None = structurally different"""
    if len(A) != len(B): return False
    conds = []
    for pa, pb in zip(A, B):
        if len(pa['commands']) != len(pb['commands']) or pa['background'] != pb['background']: return False
        for ca, cb in zip(pa['commands'], pb['commands']):
            ta = [t[1] for t in ca['tokens']]; tb = [t[1] for t in cb['tokens']]
            if len(ta) != len(tb) or len(ca['redirects_to']) != len(cb['redirects_to']) or (ca['redirect_from'] is None) != (cb['redirect_from'] is None): return False
            for x, y in zip(ta, tb):
                if len(x) != len(y): return False
                conds.append(str_eq(tuple(x), tuple(y)))
            for ra, rb in zip(ca['redirects_to'], cb['redirects_to']):
                for x, y in zip(ra, rb):
                    if len(x) != len(y): return False
                    conds.append(str_eq(tuple(x), tuple(y)))
            if ca['redirect_from'] is not None:
                for x, y in zip(ca['redirect_from'], cb['redirect_from']):
                    if len(x) != len(y): return False
                    conds.append(str_eq(tuple(x), tuple(y)))
    if any(c is False for c in conds): return False
    return b_and(*[c for c in conds if c is not True])

def body(inst, b):
    def h(I):
        p = I.prog
        I.env = models_env.Env(I, {'HOME': '/home/u', 'PATH': '/bin'}, unknown='unset')
        I.env.glob_handler = lambda I_, pat: []
        plans = []
        install(I, plans)
        kind = inst['kind']
        name = sym_name(I, 'n', b['name_len'])
        # names of the fixed vocabulary are excluded (the reference treats them as plain commands)
        for w in ('o', 'c0', 'c1', 'a1', 'oo', 'x'):
            if len(w) == len(name): I.ctx.assume(z3.Not(str_eq(name, lit(w))) if is_sym(str_eq(name, lit(w))) else True)
        I.h_name = name
        if hlib.truthy(I, I.call_fn('is_arithmetic', [tuple(name)])):
            I.ctx.assume(False)          # a name like `-0` or `1-1` is an arithmetic line for cicada (C19), not a command word
        def run(sh_cell, line, capture=False):
            return I.call_fn('run_command_line', [Ref(sh_cell, 0), tuple(line), False, capture])
        if kind == 'usage':
            sh = hlib.mk_shell(I, aliases={'o': 'oo x'}); cell = [sh]
            I.h_line = lit('alias o=1 extra')
            run(cell, lit('alias o=1 extra'))
            t = table_of(I, sh)
            expect(I, t == [(lit('o'), lit('oo x'))], 'malformed-definition-changed-table', dict(table=t))
            I.h_line = lit('unalias')
            run(cell, lit('unalias'))
            expect(I, table_of(I, sh) == [(lit('o'), lit('oo x'))], 'malformed-unalias-changed-table', None)
            return dict(ok=True)
        if kind == 'unalias':
            val = lit('vv -l')
            sh = hlib.mk_shell(I, aliases={'o': 'oo x'}); cell = [sh]
            hlib.field(p, sh, 'aliases').items.append([RString(name), RString(val)])
            name2 = sym_name(I, 'm', b['name_len'])
            line = list(lit('unalias ')) + list(name2); I.h_line = tuple(line)
            run(cell, line)
            t = table_of(I, sh)
            same = hlib.truthy(I, str_eq(name, name2))
            is_o = hlib.truthy(I, str_eq(name2, lit('o'))) if len(name2) == 1 else False
            want = [(lit('o'), lit('oo x')), (name, val)]
            if same: want = [want[0]]
            elif is_o: want = [want[1]]
            I.h_obs = dict(table=t, want=want)
            ok = len(t) == len(want)
            if ok:
                conds = []
                for (k1, v1), (k2, v2) in zip(sorted(t, key=lambda e: len(e[1])), sorted(want, key=lambda e: len(e[1]))):
                    conds += [str_eq(tuple(k1), tuple(k2)) if len(k1) == len(k2) else False, str_eq(tuple(v1), tuple(v2)) if len(v1) == len(v2) else False]
                ok = False if any(c is False for c in conds) else b_and(*[c for c in conds if c is not True])
            expect(I, ok, 'unalias-removed-wrong-entries', dict(table=t, want=want))
            return dict(table=t)
        # ---- define
        value = mk_value(I, inst, b, name); I.h_value = tuple(value)
        if hlib.truthy(I, I.call_fn('is_arithmetic', [tuple(value)])):
            I.ctx.assume(False)          # a value that is itself an arithmetic line (C19) is tokenized by blanks only
        q = inst['q']
        init = {'o': 'oo x'}
        sh = hlib.mk_shell(I, aliases=init); cell = [sh]
        if inst.get('redef'):
            hlib.field(p, sh, 'aliases').items.append([RString(name), RString(lit('old -v'))])
        line = list(lit('alias ')) + list(name) + [ord('=')] + list(lit(q)) + list(value) + list(lit(q))
        I.h_line = tuple(line)
        run(cell, line)
        t = table_of(I, sh)
        I.h_table = t
        ent = [e for e in t if not (len(e[0]) == 1 and e[0][0] == ord('o'))]
        okeep = [e for e in t if len(e[0]) == 1 and e[0][0] == ord('o')]
        expect(I, len(okeep) == 1 and tuple(okeep[0][1]) == lit('oo x'), 'definition-changed-other-alias', dict(table=t))
        expect(I, len(ent) == 1, 'definition-entry-count', dict(table=t))
        k_, v_ = ent[0]
        expect(I, str_eq(tuple(k_), name) if len(k_) == len(name) else False, 'definition-name', dict(got=k_, want=name))
        expect(I, str_eq(tuple(v_), tuple(value)) if len(v_) == len(value) else False, 'definition-value', dict(got=v_, want=tuple(value)))
        if kind == 'define':
            u = inst['use']
            words = u.split(' ')
            def build(repl_heads):
                out = []; hi = 0; first = True
                for w in words:
                    if out: out.append(32)
                    if w == 'N':
                        is_head = first
                        out += list(value) if (repl_heads and is_head) else list(name)
                    else: out += list(lit(w))
                    first = w in ('|', ';', '&&')
                return out
            use_line = build(False); ref_line = build(True)
            I.h_use = tuple(use_line); I.h_ref = tuple(ref_line)
            del plans[:]
            run(cell, use_line)
            got = list(plans)
            sh0 = hlib.mk_shell(I, aliases={}); c0 = [sh0]
            del plans[:]
            run(c0, ref_line)
            want = list(plans)
            I.h_got = got; I.h_want = want
            expect(I, plans_equal(I, got, want), 'use-differs-from-written-value', dict(got=got, want=want))
            return dict(got=got)
        # ---- list: output of `alias` and `alias NAME` recreates the table in a fresh shell
        for which, ln in (('list', lit('alias')), ('single', tuple(list(lit('alias ')) + list(name)))):
            r = run(cell, ln, True)
            crs = I.list_of(r)
            text = I.str_of(hlib.field(p, I.deref(crs[0]), 'stdout'))
            I.h_text = text
            sh2 = hlib.mk_shell(I, aliases={}); c2 = [sh2]
            cur = []
            lines = []
            for ch in list(text) + [10]:
                if not is_sym(ch) and ch == 10:
                    if cur: lines.append(cur)
                    cur = []
                else: cur.append(ch)
            for ln2 in lines: run(c2, ln2)
            t2 = table_of(I, sh2)
            want = [e for e in t if which == 'list' or e is ent[0]]
            ok = len(t2) == len(want)
            if ok:
                conds = []
                for (k2, v2) in t2:
                    alts = []
                    for (k1, v1) in want:
                        if len(k1) == len(k2) and len(v1) == len(v2):
                            alts.append(b_and(str_eq(tuple(k1), tuple(k2)), str_eq(tuple(v1), tuple(v2))))
                    alts = [x for x in alts if x is not False]
                    conds.append(False if not alts else (True if any(x is True for x in alts) else b_or(*alts)))
                ok = False if any(c is False for c in conds) else b_and(*[c for c in conds if c is not True])
            expect(I, ok, '%s-output-does-not-recreate' % which, dict(printed=text, recreated=t2, table=want))
        return dict(table=t)
    return h

# ---- native --------------------------------------------------------------------------------------------------------
def native_session(lines, timeout=15):
    """run lines in ONE shell process (script file is not usable: aliases in scripts behave the same; use -c with newline? no: a script file)"""
    d = tempfile.mkdtemp(prefix='cicada-verif-c17-')
    try:
        out = os.path.join(d, 'r.jsonl')
        sp = os.path.join(d, 's.sh'); open(sp, 'w').write('\n'.join(lines) + '\n')
        bind = os.path.join(d, 'bin'); os.makedirs(bind)
        helper = '#!/usr/bin/python3\nimport sys, os, json\nopen(%r, "a").write(json.dumps([os.path.basename(sys.argv[0])] + sys.argv[1:]) + "\\n")\n' % out
        env = {'HOME': '/home/u', 'PATH': bind + ':/usr/bin:/bin', 'LANG': 'C.UTF-8'}
        # every word that could become a command gets a recording helper
        return d, out, sp, bind, helper, env
    except Exception:
        shutil.rmtree(d, ignore_errors=True); raise

def native_use(def_line, use_line, ref_line, timeout=15):
    """argv records of `def_line ; use_line` versus `ref_line` alone, any command name resolving to a recording helper"""
    res = {}
    for tag, lines in (('alias', [def_line, use_line]), ('written', [ref_line])):
        d, out, sp, bind, helper, env = native_session(lines)
        try:
            # command-not-found handler: put a catch-all by naming helpers after every candidate first word is impossible;
            # instead PATH contains only our bin dir and the helper is installed under each word of both lines
            import re
            for w in set(re.split(r'[\s|;&]+', def_line + ' ' + use_line + ' ' + ref_line)):
                w2 = w.strip('\'"')
                if w2 and '/' not in w2 and w2 not in ('alias', 'unalias') and len(w2) < 64 and '\x00' not in w2:
                    try:
                        hp = os.path.join(bind, w2); open(hp, 'w').write(helper); os.chmod(hp, 0o755)
                    except OSError: pass
            try:
                p = subprocess.run([CICADA, sp], cwd=d, env=env, stdin=subprocess.DEVNULL, stdout=subprocess.PIPE, stderr=subprocess.PIPE, timeout=timeout)
                recs = [json.loads(x) for x in open(out)] if os.path.exists(out) else []
                res[tag] = dict(records=sorted(recs), stderr=p.stderr.decode('utf-8', 'replace')[-200:])
            except subprocess.TimeoutExpired:
                res[tag] = dict(hang=True)
        finally:
            shutil.rmtree(d, ignore_errors=True)
    return res

def native_list(def_line, name, timeout=15):
    """define; print `alias` into a file; source that file in a fresh shell; print `alias` again; compare"""
    d = tempfile.mkdtemp(prefix='cicada-verif-c17-')
    try:
        env = {'HOME': d, 'PATH': '/usr/bin:/bin', 'LANG': 'C.UTF-8'}
        s1 = os.path.join(d, 's1.sh'); open(s1, 'w').write(def_line + '\nalias > %s/listing\nalias %s > %s/single\n' % (d, name, d))
        subprocess.run([CICADA, s1], cwd=d, env=env, stdin=subprocess.DEVNULL, stdout=subprocess.PIPE, stderr=subprocess.PIPE, timeout=timeout)
        out = {}
        for which in ('listing', 'single'):
            src = open(os.path.join(d, which)).read() if os.path.exists(os.path.join(d, which)) else ''
            s2 = os.path.join(d, 's2.sh'); open(s2, 'w').write(src + '\nalias > %s/again\n' % d)
            subprocess.run([CICADA, s2], cwd=d, env=env, stdin=subprocess.DEVNULL, stdout=subprocess.PIPE, stderr=subprocess.PIPE, timeout=timeout)
            again = open(os.path.join(d, 'again')).read() if os.path.exists(os.path.join(d, 'again')) else ''
            out[which] = dict(printed=src, after_feeding_back=again)
        return out
    finally:
        shutil.rmtree(d, ignore_errors=True)

def run_instance(prog, inst, tier, seed, deadline):
    b = BOUNDS[tier]
    S = explore.chars_to_str
    def rec(l, I):
        m = l.model
        r = dict(label=l.msg, kind=inst['kind'], instance=inst['name'], line=S(m, getattr(I, 'h_line', ())), name=S(m, getattr(I, 'h_name', ())))
        if hasattr(I, 'h_value'): r['value'] = S(m, I.h_value)
        if hasattr(I, 'h_use'): r['use'] = S(m, I.h_use); r['ref'] = S(m, I.h_ref)
        return r
    def on_violation(l, I):
        r = rec(l, I); r['detail'] = conc(l.model, l.payload)
        val = r.get('value', '')
        trig = [ch for ch in '<>*?[]{}~=' if ch in val]
        style = {"'": 'sq', '"': 'dq', '': 'bare'}.get(inst.get('q'), '')
        if l.msg == 'definition-value' and any(ch in r.get('name', '') for ch in '-.') and val[:1] in ('"', "'"): r['key'] = 'definition-value:name-with-dash-or-dot:value-starts-with-quote'
        elif trig and l.msg.startswith(('definition-', 'use-')): r['key'] = 'value-reinterpreted:{%s}' % trig[0]
        elif l.msg == 'use-differs-from-written-value' and val.endswith(' '): r['key'] = 'use:value-ends-with-blank'
        elif l.msg == 'use-differs-from-written-value' and val.startswith(' '): r['key'] = 'use:value-starts-with-blank'
        elif l.msg == 'definition-value' and any(ch in r.get('name', '') for ch in '-.') and val[:1] in ('"', "'"): r['key'] = 'definition-value:name-with-dash-or-dot:value-starts-with-quote'
        elif l.msg.endswith('-output-does-not-recreate') and "'" in val: r['key'] = 'listing:value-with-single-quote'
        else: r['key'] = '%s:%s:%s' % (l.msg, style, inst.get('vt', inst['kind']))
        return r
    def on_ok(l, I):
        if inst['kind'] != 'define' or (l.decisions + seed) % 4: return None
        r = rec(l, I)
        if any(ord(c) < 32 or c in '/\x7f' for c in r['line'] + r.get('use', '')): return None
        n = native_use(r['line'], r['use'], r['ref'])
        if n.get('alias', {}).get('records') != n.get('written', {}).get('records'):
            return ('mismatch', dict(r, native=n))
        return ('validated', 1)
    def on_panic(l, I):
        if l.status == 'exit': return None
        r = rec(l, I); r.update(label='crash', key='crash:%s' % str(l.msg)[:40]); return r
    return hsupport.run_paths(prog, body(inst, b), deadline, on_ok=on_ok, on_violation=on_violation, on_panic=on_panic, step_budget=1_500_000,
                              prefix=inst.get('_prefix'), split_depth=inst.get('_split'))

def replay(v):
    lab = v['label']
    if lab == 'crash':
        d, out, sp, bind, helper, env = native_session([v['line']] + ([v['use']] if v.get('use') else []))
        try:
            p = subprocess.run([CICADA, sp], cwd=d, env=env, stdin=subprocess.DEVNULL, stdout=subprocess.PIPE, stderr=subprocess.PIPE, timeout=15)
            err = p.stderr.decode('utf-8', 'replace')
            return dict(witness=v['line'], stderr=err[-300:], reproduced=p.returncode == 101 or 'panicked' in err)
        finally: shutil.rmtree(d, ignore_errors=True)
    if lab == 'use-differs-from-written-value':
        n = native_use(v['line'], v['use'], v['ref'])
        return dict(witness=[v['line'], v['use']], written=v['ref'], native=n, reproduced=n.get('alias', {}).get('records') != n.get('written', {}).get('records'))
    if lab.startswith('definition-') or lab.endswith('-output-does-not-recreate'):
        n = native_list(v['line'], v['name'])
        want = "alias %s='%s'" % (v['name'], v.get('value', ''))
        if lab.startswith('definition-'):
            got = [ln for ln in n['listing']['printed'].split('\n') if ln.startswith('alias %s=' % v['name'])]
            return dict(witness=v['line'], expected_listing_line=want, native=n, reproduced=got != [want])
        which = 'listing' if lab.startswith('list') else 'single'
        a = sorted(x for x in n[which]['printed'].split('\n') if x); b_ = sorted(x for x in n[which]['after_feeding_back'].split('\n') if x)
        return dict(witness=v['line'], native=n[which], reproduced=a != b_)
    if lab == 'unalias-removed-wrong-entries':
        return dict(witness=v['line'], reproduced=None, note='table-level violation: replay through the binary not implemented for this label')
    return dict(witness=v.get('line'), reproduced=None)

def replay_file(path):
    d = json.load(open(path)); r = replay(d['violation']); print(json.dumps(r, indent=1, default=str))
    if r.get('reproduced'):
        print('VIOLATION property=%s replay=%s' % (PROPERTY, path)); return 1
    return 0

def finish(pid, tier, seed, results, known, wall, th, log):
    agg = hsupport.merge(results)
    hsupport.report_issues(agg, log)
    code, lines, new, nknown = hsupport.triage(pid, agg, known, lambda v: v['key'], replay, log, max_replays_per_key=5)
    for ln in lines: print(ln)
    extra = dict(bounds=BOUNDS[tier], instances=len(results), repo_tree=th, violating_paths=len(agg['violations']), new_violations=new, known_findings_reproduced=nknown)
    hsupport.write_evidence(pid, tier, seed, agg, wall, extra, ASSUMPTIONS, new)
    log('paths=%d queries=%d solver=%.1fs validated=%d violations(paths)=%d new=%d known=%d -> exit %d' % (
        agg['paths'], agg['queries'], agg['solver_s'], agg['validated'], len(agg['violations']), new, nknown, code))
    return code
