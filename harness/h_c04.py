"""C04 - redirections connect exactly the named descriptors to the named files (see oshar.py).
Oracle: POSIX left-to-right redirection on an abstract descriptor table, computed from the instance spec (not from
cicada's own parse): at execve (external) or at the write (builtin) fds 0/1/2 denote the reference objects, every
target was opened with the right mode (> truncate+create, >> append+create, < read), the here-string pipe received
word + newline, other stages are untouched, an unopenable target keeps the command from running / gives status != 0."""
import oswrap
oswrap.make(globals(), 'C04', ('redir',), [
    'POSIX descriptor model (osmodel.py); initial table 0,1,2 plus an arbitrary subset of {3,4}',
    'redirection shapes: see coverage.specs (every operator of the property, attached and spaced, on external commands and on the builtin minfd, in first/middle/last pipeline position); file names and the here-string word are fixed texts',
    'actual file contents after the write and the kernel are outside; `read` consuming stdin is C09',
], ('child-stdin', 'child-stdout', 'child-stderr', 'files-opened', 'builtin-output-target', 'builtin-files-opened', 'here-string-data',
    'ran-despite-unopenable-target', 'unopenable-target-status-zero', 'child-exited-without-exec'))
