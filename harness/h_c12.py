"""C12 - brace, range, tilde and filename expansion yield exactly the specified words.

Encoded (MIR): shell::{need_expand_brace, brace_getitem, brace_getgroup, expand_brace, expand_brace_range, expand_home,
needs_globbing, expand_glob}, libs::path::basename.  Each pass is driven on a token list [pre-word, WORD, post-word]
so that order and untouched neighbours are part of the oracle.
Symbolic: brace words with every character unconstrained (the solver decides which are `{`, `,`, `}`); range bounds
and step as digit strings with symbolic digits and sign; HOME; the paths the glob stub returns."""
import itertools, json, os, shutil, tempfile
import z3
import hsupport, hlib, explore, models_env, native as nativemod
from engine import (lit, Ref, Agg, RString, RVec, is_sym, str_eq, ch_eq, b_and, b_or, ch_in_range)
from explore import expect, conc, Violation
from models import int_to_chars

PROPERTY = 'C12'
BUDGET = {'quick': 900, 'thorough': 1500}
BOUNDS = {'quick': dict(brace=5, range_digits=1, home=2, glob_names=2, name_len=2),
          'thorough': dict(brace=6, range_digits=1, home=3, glob_names=3, name_len=2)}
ASSUMPTIONS = [
    'brace words: n fully symbolic characters (arbitrary scalars except NUL/newline and except blank, quotes, backslash and backquote, which take the word out of the brace-expansion domain by the property\'s "never inside quotes"); words that are not well formed (unbalanced braces, a group without a comma) are only required not to crash or hang',
    'ranges: {m..n} and {m..n..s} with up to range_digits symbolic digits per number and symbolic signs, plus the i32 extremes as directed cases; text before/after the braces symbolic (1 character each)',
    'tilde: words `~`, `~/`, `~/x`, `a~`, `~/` + two fully symbolic characters; HOME is a symbolic string (arbitrary characters, so `$` and regex-special text are covered)',
    'glob: glob::glob is a stub returning up to glob_names paths with symbolic names (may start with `.`, may contain blanks) in ascending order (the glob crate\'s documented order); the matcher itself is outside',
    'each pass is driven directly (the order of passes in do_expansion is exercised by C01/C13)',
]
BRACE_EXCLUDE = ' \'"\\`'

def instances(tier, seed):
    b = BOUNDS[tier]
    out = []
    for n in range(1, b['brace'] + 1):
        if n == b['brace']:
            for k in range(4):
                out.append(dict(name='brace/%d/part%d' % (n, k), kind='brace', n=n, part=k))
        else:
            out.append(dict(name='brace/%d' % n, kind='brace', n=n))
    for nd in range(1, b['range_digits'] + 1):
        for step in (False, True):
            if step and nd > 1: continue          # symbolic two-digit bounds with a symbolic step: div/rem kernels stall the bit-blaster (measured: > 3000 s); the step clause stays at one digit
            for ctx in ((0, 0), (1, 0), (0, 1)):
                for signs in ((0, 0), (0, 1), (1, 0), (1, 1)):
                    out.append(dict(name='range/d%d/%s/ctx%d%d/s%d%d' % (nd, 'step' if step else 'nostep', ctx[0], ctx[1], signs[0], signs[1]),
                                    kind='range', nd=nd, step=step, ctx=ctx, signs=signs))
    for case in ('2147483647..2147483647', '2147483646..2147483647', '-2147483648..-2147483647', '-2147483647..-2147483648', '0..3..2147483647',
                 '1..2147483647..2147483647', '99999999999..1', '-5..5..3', '5..-5..3', '3..3'):
        out.append(dict(name='range/directed/' + case, kind='range-directed', text=case))
    for hl in range(0, b['home'] + 1):
        for form in ('~', '~/', '~/x', '~x', 'a~', '~/??'):      # `??` = two fully symbolic characters (a second `~` among them)
            for tag in ('', '"'):
                out.append(dict(name='tilde/%s/h%d/%s' % (form.replace('/', '_'), hl, 'dq' if tag else 'plain'), kind='tilde', form=form, hl=hl, tag=tag))
    for k in range(0, b['glob_names'] + 1):
        for pat in ('*', 'a*', '.*', 'd/*', '*.txt'):
            for tag in ('', "'"):
                out.append(dict(name='glob/%s/k%d/%s' % (pat.replace('/', '_'), k, 'sq' if tag else 'plain'), kind='glob', pat=pat, k=k, tag=tag))
    out.sort(key=lambda i: 0 if i['kind'] == 'range' and i.get('step') else 1)
    return out

# ---- reference brace expansion (the statement: left-to-right alternatives, cartesian product, nesting, empty alternatives)
def ref_brace(I, chars):
    """returns (wellformed, [words]) ; chars may be symbolic (forks via I.branch)"""
    T = lambda c: hlib.truthy(I, c)
    kinds = []
    for c in chars:
        if T(ch_eq(c, 123)): kinds.append('{')
        elif T(ch_eq(c, 125)): kinds.append('}')
        elif T(ch_eq(c, 44)): kinds.append(',')
        else: kinds.append('c')
    # well-formedness: balanced, every group has a top-level comma, no comma outside braces
    depth = 0; commas = []; ok = True; anygroup = False
    for k in kinds:
        if k == '{': depth += 1; commas.append(0); anygroup = True
        elif k == '}':
            if depth == 0: ok = False; break
            if commas.pop() == 0: ok = False; break
            depth -= 1
        elif k == ',':
            if depth == 0: pass        # a comma outside braces is ordinary text
            else: commas[-1] += 1
    if depth != 0: ok = False
    if not ok or not anygroup: return False, None
    def parse_seq(i, depth):
        """sequence of items until ',' or '}' at this depth (or end); returns (list of words, next index)"""
        words = [[]]
        while i < len(kinds):
            k = kinds[i]
            if depth > 0 and k in ',}': break
            if k == '{':
                alts, j = parse_group(i + 1, depth + 1)
                words = [w + a for w in words for a in alts]
                i = j
            else:
                words = [w + [chars[i]] for w in words]
                i += 1
        return words, i
    def parse_group(i, depth):
        alts = []
        while True:
            ws, i = parse_seq(i, depth)
            alts.extend(ws)
            if kinds[i] == ',': i += 1; continue
            return alts, i + 1     # '}'
    words, _ = parse_seq(0, 0)
    return True, words

def body(inst, b):
    kind = inst['kind']
    def h(I):
        p = I.prog
        I.env = models_env.Env(I, {}, unknown='unset')
        pre = ('', lit('pre')); post = ('', lit('po st'))
        if kind == 'brace':
            cs = [I.sym_char('c%d' % i, exclude=BRACE_EXCLUDE) for i in range(inst['n'])]
            if 'part' in inst:
                c0 = cs[0]; k = inst['part']
                I.ctx.assume([c0 == 123, c0 == 44, c0 == 125, z3.And(c0 != 123, c0 != 44, c0 != 125)][k])
            I.h_word = cs
            toks = hlib.tokens_value([pre, ('', tuple(cs)), post]); ct = [toks]
            I.call_fn('expand_brace', [Ref(ct, 0)])
            got = hlib.tokens_of(I, ct[0]); I.h_got = got
            wf, words = ref_brace(I, cs)
            I.h_wf = wf
            if not wf:
                return dict(domain='outside', got=got)
            I.h_want = words
            expect(I, len(got) == len(words) + 2, 'word-count', None)
            expect(I, str_eq(got[0][1], pre[1]) is True and str_eq(got[-1][1], post[1]) is True, 'neighbours', None)
            for g, w in zip(got[1:-1], words):
                expect(I, str_eq(tuple(g[1]), tuple(w)), 'alternative', None)
            return dict(domain='in', got=got)
        if kind in ('range', 'range-directed'):
            if kind == 'range':
                nd = inst['nd']
                def number(nm, neg):
                    digs = [I.sym_char('%s_%d' % (nm, i)) for i in range(nd)]
                    for d in digs: I.ctx.assume(z3.And(z3.UGE(d, 48), z3.ULE(d, 57)))
                    return ([45] if neg else []) + digs
                m_ = number('m', inst['signs'][0]); n_ = number('n', inst['signs'][1])
                text = [123] + m_ + [46, 46] + n_
                if inst['step']:
                    sd = [I.sym_char('s_%d' % i) for i in range(nd)]
                    for d in sd: I.ctx.assume(z3.And(z3.UGE(d, 48), z3.ULE(d, 57)))
                    text += [46, 46] + sd
                text += [125]
                head = [I.sym_char('hd', exclude=BRACE_EXCLUDE + '{}.,0123456789-')] if inst['ctx'][0] else []
                tail = [I.sym_char('tl', exclude=BRACE_EXCLUDE + '{}.,0123456789-')] if inst['ctx'][1] else []
            else:
                text = list(lit('{' + inst['text'] + '}')); head = []; tail = []
            word = head + text + tail
            I.h_word = word
            toks = hlib.tokens_value([pre, ('', tuple(word)), post]); ct = [toks]
            I.call_fn('expand_brace_range', [Ref(ct, 0)])
            got = hlib.tokens_of(I, ct[0]); I.h_got = got
            return dict(got=got)      # compared concretely per leaf (arithmetic reference in python)
        if kind == 'tilde':
            home = [I.sym_char('home%d' % i) for i in range(inst['hl'])]
            I.env.vars.append([lit('HOME'), tuple(home)])
            if '?' in inst['form']: word = list(lit('~/')) + [I.sym_char('t%d' % i) for i in range(inst['form'].count('?'))]
            else: word = list(lit(inst['form']))
            I.h_home = home; I.h_tword = word
            toks = hlib.tokens_value([pre, (lit(inst['tag']), tuple(word)), post]); ct = [toks]
            I.call_fn('shell::expand_home', [Ref(ct, 0)])
            got = hlib.tokens_of(I, ct[0]); I.h_got = got
            expect(I, len(got) == 3 and str_eq(got[0][1], pre[1]) is True and str_eq(got[2][1], post[1]) is True, 'neighbours', None)
            if inst['tag'] or inst['form'] in ('a~',):
                want = word
            elif inst['form'] == '~x':
                return dict(domain='outside', got=got)      # `~user`: not covered by the statement
            else:
                want = home + word[1:]
            I.h_want = want
            expect(I, str_eq(tuple(got[1][1]), tuple(want)), 'tilde', None)
            return dict(got=got)
        if kind == 'glob':
            k = inst['k']
            names = []
            for i in range(k):
                ln = I.choose('nlen%d' % i, b['name_len']) + 1
                names.append([I.sym_char('g%d_%d' % (i, j), exclude='/') for j in range(ln)])
            # ascending order as the glob crate returns (compare first characters; ties by later ones are not forced)
            for a_, b_ in zip(names, names[1:]):
                I.ctx.assume(z3.ULE(a_[0], b_[0]))
            prefix = list(lit('d/')) if inst['pat'].startswith('d/') else []
            paths = [prefix + n for n in names]
            I.h_paths = paths
            I.env.glob_handler = lambda I_, pat: [tuple(x) for x in paths]
            toks = hlib.tokens_value([pre, (lit(inst['tag']), lit(inst['pat'])), post]); ct = [toks]
            I.call_fn('expand_glob', [Ref(ct, 0)])
            got = hlib.tokens_of(I, ct[0]); I.h_got = got
            T = lambda c: hlib.truthy(I, c)
            if inst['tag']:
                want = [lit(inst['pat'])]
            else:
                show_hidden = inst['pat'].split('/')[-1].startswith('.*')
                want = []
                for n, pth in zip(names, paths):
                    if T(ch_eq(n[0], 46)) and not show_hidden: continue
                    if len(n) == 1 and T(ch_eq(n[0], 46)): continue
                    if len(n) == 2 and T(ch_eq(n[0], 46)) and T(ch_eq(n[1], 46)): continue
                    want.append(tuple(pth))
                if not want: want = [lit(inst['pat'])]
            I.h_want = want
            expect(I, len(got) == len(want) + 2, 'word-count', None)
            expect(I, str_eq(got[0][1], pre[1]) is True and str_eq(got[-1][1], post[1]) is True, 'neighbours', None)
            for g, w in zip(got[1:-1], want):
                expect(I, str_eq(tuple(g[1]), tuple(w)), 'match-word', None)
            return dict(got=got)
        raise Exception(kind)
    return h

# ---- concrete references ------------------------------------------------------------------------------
def ref_range(word):
    import re
    m = re.search(r'\{(-?[0-9]+)\.\.(-?[0-9]+)(?:\.\.([0-9]+))?\}', word)
    if not m: return None
    a, b_ = int(m.group(1)), int(m.group(2))
    s = int(m.group(3)) if m.group(3) is not None else 1
    if s <= 1: s = 1
    lim = 1 << 31
    if not (-lim <= a < lim and -lim <= b_ < lim and s < lim): return 'out-of-range'
    if (abs(a - b_) // s) > 4000: return 'huge'
    seq = list(range(a, b_ + 1, s)) if a <= b_ else list(range(a, b_ - 1, -s))
    head, tail = word[:m.start()], word[m.end():]
    return [head + str(x) + tail for x in seq]

def native_tokens(nat, fn, toks, pre_args=()):
    args = list(pre_args)
    for a, b_ in toks: args += [a, b_]
    return nat.call(fn, *args)

def run_instance(prog, inst, tier, seed, deadline):
    b = BOUNDS[tier]
    kind = inst['kind']
    nat = nativemod.Native(timeout=6, env={'PATH': '/usr/bin', 'HOME': '/home/u'})
    S = explore.chars_to_str
    try:
        def toks_conc(m, got): return [[S(m, a), S(m, t)] for a, t in got]
        def on_ok(l, I):
            m = l.model
            got = toks_conc(m, I.h_got)
            if kind == 'brace':
                word = S(m, I.h_word)
                try: r = native_tokens(nat, 'expand_brace', [('', 'pre'), ('', word), ('', 'po st')])
                except nativemod.NativeHang: return ('mismatch', dict(word=word, native='hang'))
                if r != got: return ('mismatch', dict(word=word, symbolic=got, native=r))
                return ('validated', 1)
            if kind in ('range', 'range-directed'):
                word = S(m, I.h_word)
                try: r = native_tokens(nat, 'expand_brace_range', [('', 'pre'), ('', word), ('', 'po st')])
                except nativemod.NativeHang: return ('mismatch', dict(word=word, native='hang'))
                if r != got: return ('mismatch', dict(word=word, symbolic=got, native=r))
                want = ref_range(word)
                if isinstance(want, list):
                    words = [t[1] for t in got[1:-1]]
                    if words != want or got[0][1] != 'pre' or got[-1][1] != 'po st':
                        key = 'range-drops-surrounding-text' if (word[0] != '{' or word[-1] != '}') and [w for w in words] == ref_range(word[word.index('{'):word.rindex('}') + 1]) else 'range-sequence'
                        return ('violation', dict(label='range', kind=kind, word=word, expected=want, observed=words, key=key))
                return ('validated', 1)
            if kind == 'tilde':
                home = S(m, I.h_home)
                try: r = native_tokens(nat, 'expand_home', [('', 'pre'), (inst['tag'], S(m, I.h_tword)), ('', 'po st')], ['env:HOME=' + home])
                except nativemod.NativeHang: return ('mismatch', dict(home=home, native='hang'))
                if r != got: return ('mismatch', dict(home=home, symbolic=got, native=r))
                return ('validated', 1)
            return None
        def on_violation(l, I):
            m = l.model
            rec = dict(label=l.msg, kind=kind, observed=toks_conc(m, getattr(I, 'h_got', [])))
            if kind == 'brace':
                rec['word'] = S(m, I.h_word); rec['expected'] = [S(m, w) for w in I.h_want]
                rec['key'] = 'brace:' + l.msg
            elif kind == 'tilde':
                rec['home'] = S(m, I.h_home); rec['form'] = S(m, I.h_tword); rec['tag'] = inst['tag']; rec['expected'] = S(m, I.h_want)
                rec['key'] = 'tilde:home-as-template' if '$' in rec['home'] else 'tilde:' + inst['form']
            elif kind == 'glob':
                rec['paths'] = [S(m, x) for x in I.h_paths]; rec['pat'] = inst['pat']; rec['tag'] = inst['tag']; rec['expected'] = [S(m, w) for w in I.h_want]
                rec['key'] = 'glob:%s:%s' % (l.msg, inst['pat'])
            return rec
        def on_panic(l, I):
            m = l.model
            rec = dict(label='crash', kind=kind, msg=l.msg)
            if hasattr(I, 'h_word'): rec['word'] = S(m, I.h_word)
            if kind == 'tilde': rec['home'] = S(m, I.h_home); rec['form'] = S(m, getattr(I, 'h_tword', ())) or inst['form']; rec['tag'] = inst['tag']
            rec['key'] = 'crash:%s:%s' % (kind.split('-')[0], 'overflow' if 'attempt to' in str(l.msg) else str(l.msg)[:30])
            return rec
        def on_budget(l, I):
            if l.inputs is None or not hasattr(I, 'h_word'): return None
            return dict(label='hang', kind=kind, word=S(l.model, I.h_word), key='hang:' + kind)
        return hsupport.run_paths(prog, body(inst, b), deadline, on_ok=on_ok, on_violation=on_violation, on_panic=on_panic,
                                 on_budget=on_budget, step_budget=400_000)
    finally:
        nat.close()

def replay(v):
    nat = nativemod.Native(timeout=6, env={'PATH': '/usr/bin', 'HOME': '/home/u'})
    try:
        kind = v['kind']
        try:
            if kind == 'brace':
                r = native_tokens(nat, 'expand_brace', [('', 'pre'), ('', v['word']), ('', 'po st')])
                if isinstance(r, dict): return dict(witness=v['word'], native=r, reproduced=v['label'] == 'crash')
                words = [t[1] for t in r[1:-1]]
                return dict(witness=v['word'], expected=v.get('expected'), observed=words, reproduced=words != v.get('expected') and v['label'] != 'crash')
            if kind in ('range', 'range-directed'):
                r = native_tokens(nat, 'expand_brace_range', [('', 'pre'), ('', v['word']), ('', 'po st')])
                if isinstance(r, dict): return dict(witness=v['word'], native=r, reproduced=v['label'] == 'crash')
                words = [t[1] for t in r[1:-1]]
                want = ref_range(v['word'])
                return dict(witness=v['word'], expected=want, observed=words, reproduced=isinstance(want, list) and words != want)
            if kind == 'tilde':
                r = native_tokens(nat, 'expand_home', [('', 'pre'), (v['tag'], v['form']), ('', 'po st')], ['env:HOME=' + v['home']])
                if isinstance(r, dict): return dict(witness=v, native=r, reproduced=v['label'] == 'crash')
                return dict(witness=dict(word=v['form'], HOME=v['home']), expected=v.get('expected'), observed=r[1][1], reproduced=r[1][1] != v.get('expected'))
            if kind == 'glob':
                d = tempfile.mkdtemp(prefix='cicada-verif-c12-')
                try:
                    import h_c01
                    h_c01.make_files(d, [p_ for p_ in v['paths'] if h_c01.ok_filename(p_)])
                    nat.call('cd', d)
                    r = native_tokens(nat, 'expand_glob', [('', 'pre'), (v['tag'], v['pat']), ('', 'po st')])
                    words = [t[1] for t in r[1:-1]] if not isinstance(r, dict) else r
                    return dict(witness=dict(pattern=v['pat'], files=v['paths']), expected=v.get('expected'), observed=words, reproduced=words != v.get('expected'))
                finally:
                    shutil.rmtree(d, ignore_errors=True)
        except nativemod.NativeHang:
            return dict(witness=v.get('word'), native='hang', reproduced=True)
    finally:
        nat.close()

def replay_file(path):
    d = json.load(open(path))
    r = replay(d['violation'])
    print(json.dumps(r, indent=1, ensure_ascii=False))
    if r['reproduced']:
        print('VIOLATION property=%s replay=%s' % (PROPERTY, path)); return 1
    return 0

def finish(pid, tier, seed, results, known, wall, th, log):
    agg = hsupport.merge(results)
    hsupport.report_issues(agg, log)
    code, lines, new, nknown = hsupport.triage(pid, agg, known, lambda v: v['key'], replay, log)
    for ln in lines: print(ln)
    extra = dict(bounds=BOUNDS[tier], repo_tree=th, violating_paths=len(agg['violations']), new_violations=new, known_findings_reproduced=nknown)
    hsupport.write_evidence(pid, tier, seed, agg, wall, extra, ASSUMPTIONS, new)
    log('paths=%d queries=%d solver=%.1fs validated=%d violations(paths)=%d new=%d known=%d -> exit %d' % (
        agg['paths'], agg['queries'], agg['solver_s'], agg['validated'], len(agg['violations']), new, nknown, code))
    return code
