"""C09 - variables, exported environment and working directory follow scoping rules.

Encoded (MIR): execute::run_proc (envs-only path, set_shell_vars), types::drain_env_tokens, Shell::{set_env,get_env,
remove_env}, the child's environment construction in run_single_program (observed at the execve stub),
builtins::{export,unset,read,cd}::run, tools::{split_into_fields,is_env,get_current_dir,get_user_home},
parser_line::unquote, libs::path::expand_home, shell::expand_env (as the "what do later expansions see" probe).
Inductive formulation: an ARBITRARY reachable state of the two stores for the names A and B (each absent / shell
variable / exported / both, with symbolic values) -> ONE operation with symbolic operands -> compare what a later
expansion and a later child process see with the reference model of the statement."""
import itertools, json, os, shutil, subprocess, tempfile
import z3
import hsupport, hlib, explore, models_env, models_os, osmodel
from engine import (lit, Ref, Agg, RString, RVec, Slice, is_sym, str_eq, ch_eq, b_and, b_or, EndPath, OK, ERR, TUP, ProcessExit, Opaque)
from explore import expect, conc, Violation
import oshar

PROPERTY = 'C09'
CICADA = os.path.join(hsupport.VERIF, 'build/bin/debug/cicada')
HELPERS = os.path.join(hsupport.VERIF, 'build/helpers')
BUDGET = {'quick': 900, 'thorough': 1500}
BOUNDS = {'quick': dict(val_len=1, text_len=2), 'thorough': dict(val_len=2, text_len=3)}
ASSUMPTIONS = [
    'inductive step over two names A, B: every combination of {absent, shell variable, exported, both} for A (B: absent or shell variable) with symbolic values of <= val_len characters; one operation; operands symbolic (<= val_len characters, arbitrary scalars except NUL/newline and the single quote they are written in)',
    'observables: expand_env on `$A` / `$B` (what later expansions see) and the envp a later child receives at execve (OS model); the kernel\'s inheritance across fork and chdir itself are outside',
    'cd: the file system answers (Path::exists, canonicalize, set_current_dir, current_dir) are symbolic under their contract; directory names are fixed texts',
    'read: input via here-string with symbolic text (<= text_len characters incl. blank and tab, excluding other Unicode white space); IFS unset',
]
OPS = ['assign', 'prefix', 'export', 'unset', 'read1', 'read2', 'cd', 'cd-home', 'cd-dash', 'cd-fail']
STATES = ['none', 'shell', 'exported', 'both']
VAL_EXCLUDE = "'$`\\"     # the quote the value is written in; `$`, backquote, backslash: re-expansion of values is C10/C11

def instances(tier, seed):
    out = []
    for op in OPS:
        if op.startswith('cd'):
            out.append(dict(name='%s' % op, op=op, sa='none', sb='none')); continue
        for sa in STATES:
            for sb in ('none', 'shell'):
                if op.startswith('read') or sb == 'none' or op in ('assign', 'unset'):
                    out.append(dict(name='%s/A=%s/B=%s' % (op, sa, sb), op=op, sa=sa, sb=sb))
    return out

def symval(I, name, n):
    return [I.sym_char('%s%d' % (name, i), exclude=VAL_EXCLUDE) for i in range(n)]

def ref_visible(R, name):
    if name in R['exp']: return R['exp'][name]
    return R['sh'].get(name, [])

def ref_child_env(R):
    return dict(R['exp'])

def body(inst, b):
    op = inst['op']
    def h(I):
        p = I.prog
        vl = b['val_len']
        I.env = models_env.Env(I, {'HOME': '/home/u', 'PATH': '/bin'}, unknown='unset')
        I.env.glob_handler = lambda I_, pat: []
        os_ = osmodel.OS(I); I.os = os_
        os_.fail_open = lambda path: False
        I.stubs['libc::getpid'] = lambda I_, a, c: os_.getpid()
        def pipe_stub(I_, a, c):
            r = os_.pipe_pair(I); return OK(TUP(r[0], r[1]))
        I.stubs['pipes::pipe'] = pipe_stub
        I.stubs['find_file_in_path'] = lambda I_, a, c: RString(lit('/bin/') + tuple(I.str_of(a[0])))
        I.stubs['wait_fg_job'] = lambda I_, a, c: hlib.mk_struct(p, 'CommandResult', gid=0, status=0, stdout=RString(), stderr=RString())
        # ---- arbitrary reachable pre-state
        R = {'exp': {}, 'sh': {}}
        sh = hlib.mk_shell(I); cell = [sh]
        envs = hlib.field(p, sh, 'envs')
        for nm, stt in (('A', inst['sa']), ('B', inst['sb'])):
            if stt in ('exported', 'both'):
                v = symval(I, 'e' + nm, vl); R['exp'][nm] = v; I.env.vars.append([lit(nm), tuple(v)])
            if stt in ('shell', 'both'):
                v = symval(I, 's' + nm, vl); R['sh'][nm] = v; envs.items.append([RString(lit(nm)), RString(v)])
        I.h_R0 = {k: dict(v) for k, v in R.items()}
        # ---- the operation
        status = None
        if op in ('assign', 'prefix', 'export'):
            v = symval(I, 'v', vl); I.h_v = v
            if op == 'assign': line = lit("A='") + tuple(v) + lit("'")
            elif op == 'prefix': line = lit("A='") + tuple(v) + lit("' c0")
            else: line = lit("export A='") + tuple(v) + lit("'")
        elif op == 'unset':
            line = lit('unset A')
        elif op in ('read1', 'read2'):
            t = [I.sym_char('t%d' % i, exclude=VAL_EXCLUDE) for i in range(b['text_len'])]; I.h_t = t
            from engine import ch_is_whitespace
            for c_ in t:      # IFS is blank/tab/newline; other Unicode white space is outside the statement (cicada trims it)
                I.ctx.assume(z3.Or(c_ == 32, c_ == 9, z3.Not(ch_is_whitespace(c_))))
            line = lit("read A <<< '" if op == 'read1' else "read A B <<< '") + tuple(t) + lit("'")
        else:
            return cd_case(I, inst, sh, cell)
        I.h_line = line
        role = 'shell'
        try:
            cr = I.call_fn('run_proc', [Ref(cell, 0), line, False, False])
            status = hlib.field(p, cr, 'status')
        except EndPath as e:
            if e.reason != 'execve': raise
            role = 'child'
        except ProcessExit:
            role = 'child-exit'
        if role != 'shell':
            # the prefixed command's own environment
            expect(I, op == 'prefix' and role == 'child', 'unexpected-process-exit', None)
            envp = {}
            for e in os_.exec['envp']:
                k, _, val = partition_eq(e)
                envp[k] = val
            want = ref_child_env(R); want['A'] = I.h_v
            I.h_obs = dict(envp={''.join(map(chr, k)): v for k, v in envp.items() if k in (lit('A'), lit('B'))})
            for nm in ('A', 'B'):
                got = envp.get(lit(nm))
                w = want.get(nm)
                if w is None: expect(I, got is None, 'child-env-extra', dict(name=nm))
                else:
                    expect(I, got is not None, 'child-env-missing', dict(name=nm))
                    expect(I, str_eq(tuple(got), tuple(w)), 'child-env-value', dict(name=nm))
            return dict(role='child')
        # ---- reference update
        if op == 'assign':
            if 'A' in R['exp']: R['exp']['A'] = v
            else: R['sh']['A'] = v
        elif op == 'export':
            R['exp']['A'] = v
        elif op == 'unset':
            R['exp'].pop('A', None); R['sh'].pop('A', None)
        elif op in ('read1', 'read2'):
            fields = ref_fields(I, t)
            names = ['A'] if op == 'read1' else ['A', 'B']
            vals = []
            for i, nm in enumerate(names):
                if i < len(names) - 1: vals.append(fields[i] if i < len(fields) else [])
                else:
                    rest = fields[i:]
                    joined = []
                    for k, f in enumerate(rest):
                        if k: joined.append(32)
                        joined += f
                    vals.append(joined)
            for nm, val in zip(names, vals):
                if nm in R['exp']: R['exp'][nm] = val
                else: R['sh'][nm] = val
        if op != 'prefix' and status is not None:
            expect(I, status == 0 if not is_sym(status) else True, 'status', dict(status=str(status)))
        # ---- probes
        obs = {}
        for nm in ('A', 'B'):
            toks = hlib.tokens_value([(lit(''), lit('x$' + nm + '.'))]); ct = [toks]
            I.call_fn('expand_env', [Ref(cell, 0), Ref(ct, 0)])
            got = hlib.tokens_of(I, ct[0])[0][1]
            want = [120] + list(ref_visible(R, nm)) + [46]
            obs['$' + nm] = got
            expect(I, str_eq(tuple(got), tuple(want)), 'expansion-sees', dict(name=nm))
        I.h_obs = obs
        # child probe: a later command's environment
        try:
            I.call_fn('run_proc', [Ref(cell, 0), lit('c1'), False, False])
            return dict(role='shell')
        except EndPath as e:
            if e.reason != 'execve': raise
        envp = {}
        for e in os_.exec['envp']:
            k, _, val = partition_eq(e); envp[k] = val
        want = ref_child_env(R)
        I.h_obs['envp'] = {''.join(map(chr, k)): v for k, v in envp.items() if k in (lit('A'), lit('B'))}
        for nm in ('A', 'B'):
            got = envp.get(lit(nm)); w = want.get(nm)
            if w is None: expect(I, got is None, 'later-child-env-extra', dict(name=nm))
            else:
                expect(I, got is not None, 'later-child-env-missing', dict(name=nm))
                expect(I, str_eq(tuple(got), tuple(w)), 'later-child-env-value', dict(name=nm))
        return dict(role='later-child')
    return h

def partition_eq(chars):
    for i, c in enumerate(chars):
        if not is_sym(c) and c == 61: return tuple(chars[:i]), 61, list(chars[i + 1:])
    return tuple(chars), None, []

def ref_fields(I, t):
    """IFS field splitting of a line (blank, tab, newline; sequences collapse; leading/trailing removed)"""
    T = lambda c: hlib.truthy(I, c)
    fields = []; cur = []
    for c in t:
        if T(b_or(ch_eq(c, 32), ch_eq(c, 9))):
            if cur: fields.append(cur); cur = []
        else: cur.append(c)
    if cur: fields.append(cur)
    return fields

def cd_case(I, inst, sh, cell):
    p = I.prog
    op = inst['op']
    I.env.cwd = lit('/start')
    hlib.set_field(p, sh, 'current_dir', RString(lit('/start')))
    prev_known = I.choose('has_prev', 2) == 1
    hlib.set_field(p, sh, 'previous_dir', RString(lit('/before') if prev_known else ()))
    target = {'cd': 'sub', 'cd-home': None, 'cd-dash': '-', 'cd-fail': 'missing'}[op]
    exists = op != 'cd-fail' and (I.choose('exists', 2) == 1)
    canon_ok = I.choose('canon_ok', 2) == 1
    chdir_ok = I.choose('chdir_ok', 2) == 1
    canon = lit('/real/place')
    I.env.exists_handler = lambda I_, path, what: exists
    I.stubs['Path::canonicalize'] = lambda I_, a, c: OK(Opaque('PathBuf', canon)) if canon_ok else ERR(Opaque('io::Error'))
    def set_cd(I_, a, c):
        if chdir_ok:
            d = I.deref(a[0]); I.env.cwd = tuple(d.data) if isinstance(d, Opaque) else I.str_of(d); return OK(Agg(None, []))
        return ERR(Opaque('io::Error'))
    I.stubs['set_current_dir'] = set_cd; I.stubs['env::set_current_dir'] = set_cd; I.stubs['std::env::set_current_dir'] = set_cd
    cur = lambda I_, a, c: OK(Opaque('PathBuf', tuple(I.env.cwd)))
    I.stubs['current_dir'] = cur; I.stubs['env::current_dir'] = cur; I.stubs['std::env::current_dir'] = cur
    line = 'cd' + ('' if target is None else ' ' + target)
    I.h_line = lit(line)
    cr = I.call_fn('run_proc', [Ref(cell, 0), lit(line), False, False])
    status = hlib.field(p, cr, 'status')
    ok = exists and canon_ok and chdir_ok and not (op == 'cd-dash' and not prev_known)
    curd = I.str_of(hlib.field(p, sh, 'current_dir')); prevd = I.str_of(hlib.field(p, sh, 'previous_dir'))
    pwd = I.env.lookup(lit('PWD'))
    I.h_obs = dict(status=status, current_dir=curd, previous_dir=prevd, PWD=pwd, cwd=I.env.cwd)
    if ok:
        expect(I, status == 0, 'cd-status', dict(status=str(status)))
        expect(I, tuple(curd) == canon and tuple(I.env.cwd) == canon, 'cd-current-dir', None)
        expect(I, tuple(prevd) == lit('/start'), 'cd-previous-dir', None)
        expect(I, pwd is not None and tuple(pwd) == canon, 'cd-PWD', None)
    else:
        expect(I, status != 0, 'failed-cd-status-zero', dict(exists=exists, canon_ok=canon_ok, chdir_ok=chdir_ok))
        expect(I, tuple(curd) == lit('/start') and tuple(I.env.cwd) == lit('/start'), 'failed-cd-moved', None)
        expect(I, tuple(prevd) == (lit('/before') if prev_known else ()), 'failed-cd-changed-previous', None)
        expect(I, pwd is None, 'failed-cd-changed-PWD', None)
    return dict(role='shell')

# ---- native replay through the real binary ---------------------------------------------------------------
def replay(v):
    d = tempfile.mkdtemp(prefix='cicada-verif-c09-')
    try:
        out = os.path.join(d, 'r.jsonl')
        pre = []
        st = v['state']
        for nm in ('A', 'B'):
            s_ = st.get(nm, {})
            if 'sh' in s_: pre.append("%s='%s'" % (nm, s_['sh']))
        env = {'HOME': '/home/u', 'PATH': HELPERS + ':' + os.path.join(hsupport.VERIF, 'helpers/bin'), 'ARGV_OUT': out, 'LANG': 'C.UTF-8'}
        for nm in ('A', 'B'):
            if 'exp' in st.get(nm, {}): env[nm] = st[nm]['exp']
        line = ' ; '.join(pre + [v['line'].replace(' c0', ' envdump'), "prog \"x$A.\" \"x$B.\"", 'envdump'])
        p = subprocess.run([CICADA, '-c', line], cwd=d, env=env, stdin=subprocess.DEVNULL, stdout=subprocess.PIPE, stderr=subprocess.PIPE, timeout=15)
        recs = [json.loads(x) for x in open(out)] if os.path.exists(out) else []
        return dict(witness=line, env={k: env[k] for k in env if k in 'AB'}, records=recs, expected=v.get('expected'),
                    reproduced=None)
    except subprocess.TimeoutExpired:
        return dict(witness=v['line'], hang=True, reproduced=True)
    finally:
        shutil.rmtree(d, ignore_errors=True)

def judge(v, r):
    """compare the binary's observations with the reference values recorded in the violation"""
    exp = v.get('expected') or {}
    prog = [x for x in r.get('records', []) if x.get('name') == 'prog']
    envd = [x for x in r.get('records', []) if x.get('name') == 'envdump']
    problems = []
    if prog:
        a = prog[-1]['argv'][1:]
        if 'A' in exp.get('visible', {}) and a[0] != 'x' + exp['visible']['A'] + '.': problems.append('expansion of $A gives %r, expected %r' % (a[0], 'x' + exp['visible']['A'] + '.'))
        if 'B' in exp.get('visible', {}) and a[1] != 'x' + exp['visible']['B'] + '.': problems.append('expansion of $B gives %r, expected %r' % (a[1], 'x' + exp['visible']['B'] + '.'))
    if envd:
        e = envd[-1]['env']
        for nm in ('A', 'B'):
            w = exp.get('child', {}).get(nm)
            if e.get(nm) != w: problems.append('a later child sees %s=%r, expected %r' % (nm, e.get(nm), w))
    return problems

def run_instance(prog, inst, tier, seed, deadline):
    b = BOUNDS[tier]
    S = explore.chars_to_str
    def on_violation(l, I):
        m = l.model
        rec = dict(label=l.msg, op=inst['op'], line=S(m, I.h_line), detail=l.payload, key='%s:%s' % (l.msg, inst['op']))
        if hasattr(I, 'h_v') or hasattr(I, 'h_t'):
            val = S(m, getattr(I, 'h_v', None) or getattr(I, 'h_t', []))
            trig = [ch for ch in '(>)<*|&;#?[]{}~"!=:%^, \t' if ch in val]
            # one root cause: the value of an assignment word is not protected by its quotes from the later passes
            rec['key'] = 'value-reinterpreted:%s:{%s}' % (inst['op'], trig[0] if trig else '')
        if not inst['op'].startswith('cd'):
            st = {}
            for nm in ('A', 'B'):
                st[nm] = {}
                if nm in I.h_R0['exp']: st[nm]['exp'] = S(m, I.h_R0['exp'][nm])
                if nm in I.h_R0['sh']: st[nm]['sh'] = S(m, I.h_R0['sh'][nm])
            rec['state'] = st
            rec['observed'] = conc(m, getattr(I, 'h_obs', None))
        else:
            rec['observed'] = conc(m, getattr(I, 'h_obs', None)); rec['inputs'] = l.inputs
        return rec
    def on_panic(l, I):
        if l.status == 'exit': return None
        return dict(label='crash', op=inst['op'], line=S(l.model, getattr(I, 'h_line', ())), msg=l.msg, key='crash:%s:%s' % (inst['op'], str(l.msg)[:40]), inputs=l.inputs)
    return hsupport.run_paths(prog, body(inst, b), deadline, on_violation=on_violation, on_panic=on_panic, step_budget=800_000,
                             prefix=inst.get('_prefix'), split_depth=inst.get('_split'))

def replay_and_judge(v):
    if v['label'] == 'crash' or v['op'].startswith('cd'):
        return native_cd_or_crash(v)
    r = replay(v)
    if r.get('hang'): return r
    # expected values: recompute the reference concretely
    st = v['state']; exp = {k: s_['exp'] for k, s_ in st.items() if 'exp' in s_}; shv = {k: s_['sh'] for k, s_ in st.items() if 'sh' in s_}
    import re
    line = v['line']; op = v['op']
    m = re.search(r"'(.*)'", line, re.S)
    val = m.group(1) if m else ''
    child_first = None
    if op == 'assign':
        if 'A' in exp: exp['A'] = val
        else: shv['A'] = val
    elif op == 'export': exp['A'] = val
    elif op == 'unset': exp.pop('A', None); shv.pop('A', None)
    elif op in ('read1', 'read2'):
        fields = val.replace('\t', ' ').split()
        names = ['A'] if op == 'read1' else ['A', 'B']
        for i, nm in enumerate(names):
            x = (fields[i] if i < len(fields) else '') if i < len(names) - 1 else ' '.join(fields[i:])
            if nm in exp: exp[nm] = x
            else: shv[nm] = x
    vis = {nm: (exp[nm] if nm in exp else shv.get(nm, '')) for nm in ('A', 'B')}
    v = dict(v, expected=dict(visible=vis, child={nm: exp.get(nm) for nm in ('A', 'B')}))
    problems = judge(v, r)
    if op == 'prefix':
        envd = [x for x in r.get('records', []) if x.get('name') == 'envdump']
        if len(envd) != 2: problems.append('the prefixed command ran %d times' % (len(envd) - 1))
        elif envd[0]['env'].get('A') != val: problems.append('the prefixed command saw A=%r, expected %r' % (envd[0]['env'].get('A'), val))
    r['problems'] = problems; r['reproduced'] = bool(problems); r['expected'] = v['expected']
    return r

def native_cd_or_crash(v):
    """cd violations: rebuild the model's file-system answers as a real directory tree and compare cwd / PWD / `cd -` target
    seen by helper programs.  exists & !chdir_ok = the target is a regular file (ENOTDIR after exists() passed)."""
    d = tempfile.mkdtemp(prefix='cicada-verif-c09-')
    try:
        d = os.path.realpath(d)
        inp = v.get('inputs') or {}
        op = v['op']
        has_prev = bool(inp.get('has_prev', 0)); exists = op != 'cd-fail' and bool(inp.get('exists', 1))
        canon_ok = bool(inp.get('canon_ok', 1)); chdir_ok = bool(inp.get('chdir_ok', 1))
        os.makedirs(os.path.join(d, 'before')); os.makedirs(os.path.join(d, 'start'))
        out = os.path.join(d, 'r.jsonl')
        home = os.path.join(d, 'home')
        def mk(path):
            if not exists: return
            if chdir_ok: os.makedirs(path, exist_ok=True)
            else: open(path, 'w').close()
        if op == 'cd': mk(os.path.join(d, 'start', 'sub')); target = os.path.join(d, 'start', 'sub')
        elif op == 'cd-home': mk(home); target = home
        elif op == 'cd-fail': target = os.path.join(d, 'start', 'missing')
        else: target = os.path.join(d, 'before')
        functional = v['label'] != 'crash' and (canon_ok or not exists) and not (op == 'cd-dash' and not (exists and chdir_ok))
        env = {'HOME': home, 'PATH': HELPERS + ':' + os.path.join(hsupport.VERIF, 'helpers/bin'), 'LANG': 'C.UTF-8', 'ARGV_OUT': out, 'PWD': os.path.join(d, 'start')}
        pre = ['cd ../start'] if has_prev else []
        line = ' ; '.join(pre + [v['line'], 'envdump', 'cd -', 'envdump'])
        p = subprocess.run([CICADA, '-c', line], cwd=os.path.join(d, 'before' if has_prev else 'start'), env=env, stdin=subprocess.DEVNULL, stdout=subprocess.PIPE, stderr=subprocess.PIPE, timeout=15)
        err = p.stderr.decode('utf-8', 'replace')
        crashed = p.returncode == 101 or 'panicked' in err
        recs = [json.loads(x) for x in open(out)] if os.path.exists(out) else []
        res = dict(witness=line, tree=dict(target=target, target_is='dir' if exists and chdir_ok else 'file' if exists else 'missing', has_prev=has_prev), status=p.returncode, stderr=err[-300:], records=recs)
        if v['label'] == 'crash':
            if not crashed and op in ('cd-home', 'cd-fail', 'cd'):
                env['HOME'] = os.path.join(d, 'nohome')
                p = subprocess.run([CICADA, '-c', 'cd'], cwd=d, env=env, stdin=subprocess.DEVNULL, stdout=subprocess.PIPE, stderr=subprocess.PIPE, timeout=15)
                err = p.stderr.decode('utf-8', 'replace'); crashed = p.returncode == 101 or 'panicked' in err
                if crashed: res['witness'] = 'cd   (with HOME pointing to a missing directory)'
            res['reproduced'] = crashed; return res
        if not functional or len(recs) != 2:
            res['reproduced'] = None; res['note'] = 'this combination of file-system answers cannot be staged with real directories'; return res
        start = os.path.join(d, 'start'); before = os.path.join(d, 'before')
        ok = exists and chdir_ok and canon_ok and not (op == 'cd-dash' and not has_prev)
        want1 = target if ok else start
        if ok: want2 = start
        else: want2 = before if has_prev else start
        problems = []
        if recs[0]['cwd'] != want1: problems.append('after the statement the working directory is %r, expected %r' % (recs[0]['cwd'], want1))
        if recs[0]['env'].get('PWD') != want1: problems.append('after the statement a child sees PWD=%r, expected %r' % (recs[0]['env'].get('PWD'), want1))
        if recs[1]['cwd'] != want2: problems.append('a following `cd -` leads to %r, expected %r' % (recs[1]['cwd'], want2))
        res['problems'] = problems; res['reproduced'] = bool(problems)
        return res
    finally:
        shutil.rmtree(d, ignore_errors=True)

def replay_file(path):
    d = json.load(open(path)); r = replay_and_judge(d['violation']); print(json.dumps(r, indent=1, default=str))
    if r.get('reproduced'):
        print('VIOLATION property=%s replay=%s' % (PROPERTY, path)); return 1
    return 0

def finish(pid, tier, seed, results, known, wall, th, log):
    agg = hsupport.merge(results)
    hsupport.report_issues(agg, log)
    code, lines, new, nknown = hsupport.triage(pid, agg, known, lambda v: v['key'], replay_and_judge, log, max_replays_per_key=6)
    for ln in lines: print(ln)
    extra = dict(bounds=BOUNDS[tier], repo_tree=th, violating_paths=len(agg['violations']), new_violations=new, known_findings_reproduced=nknown)
    hsupport.write_evidence(pid, tier, seed, agg, wall, extra, ASSUMPTIONS, new)
    log('paths=%d queries=%d solver=%.1fs violations(paths)=%d new=%d known=%d -> exit %d' % (
        agg['paths'], agg['queries'], agg['solver_s'], len(agg['violations']), new, nknown, code))
    return code
