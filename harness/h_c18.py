"""C18 - history: the SQL statements are assembled injection-free (statement-assembly level).

Encoded (MIR): history::add_raw (INSERT built with format!), builtins::history::{list_current_history, delete_history_item,
add_history} (SELECT / DELETE built with format!), history::{get_history_file, get_history_table}.
rusqlite is FFI: Connection::open / execute / prepare are stubs that CAPTURE the statement text.  The property's
storage half (durability, order across processes, duplicate purge) is sqlite's and is outside; what is decided here is
that for EVERY line text, search pattern and directory name (symbolic characters) the statement handed to sqlite is
the intended single statement: a reference SQL lexer (string literals with '' escapes) run over the symbolic text must
find exactly the expected literals, decoding to the original texts, and exactly the expected skeleton around them.
Every violation is replayed on the real binary against a real sqlite file that an independent client (python sqlite3) reads."""
import itertools, json, os, shutil, subprocess, tempfile, sqlite3
import z3
import hsupport, hlib, explore, models_env
from engine import (lit, Ref, Agg, RString, RVec, Slice, is_sym, str_eq, b_and, OK, ERR, TUP, EndPath, Opaque, NONE, SOME)
from explore import expect, conc, Violation

PROPERTY = 'C18'
CICADA = os.path.join(hsupport.VERIF, 'build/bin/debug/cicada')
BUDGET = {'quick': 900, 'thorough': 2400}
BOUNDS = {'quick': dict(n=3), 'thorough': dict(n=5)}
ASSUMPTIONS = [
    'statement-assembly level: rusqlite (FFI) is replaced by stubs capturing the SQL text; sqlite\'s own behaviour (durability, ordering by time stamp, visibility to later processes, the duplicate purge of history::init) and the main loop\'s decision what to record (leading blank, immediate repeat; main.rs, needs a terminal) are outside',
    'line text, search pattern and directory name: n fully symbolic characters each (all Unicode scalars except NUL, which cannot be passed in argv / a path) plus directed longer texts; the session id is the shell\'s own (hex and dashes)',
    'the reference lexer implements SQL string literals ( \'...\' with \'\' as the escape ); LIKE wildcards % and _ in a search pattern are documented behaviour and are not flagged',
    'line texts: leading / trailing white space is trimmed by add_raw by design (the prompt never delivers it); the oracle compares with the trimmed text',
]
WS = " \t\n\r\x0b\x0c\x85\xa0\u1680\u2000\u2001\u2002\u2003\u2004\u2005\u2006\u2007\u2008\u2009\u200a\u2028\u2029\u202f\u205f\u3000"

def instances(tier, seed):
    out = []
    for what in ('line', 'dir', 'both'):
        out.append(dict(name='insert/' + what, kind='insert', what=what))
    for flags in itertools.product((False, True), repeat=3):
        pat, sess, pwd = flags
        out.append(dict(name='select/%s%s%s' % ('P' if pat else '-', 'S' if sess else '-', 'D' if pwd else '-'), kind='select', pat=pat, sess=sess, pwd=pwd))
    out.append(dict(name='delete', kind='delete'))
    out.append(dict(name='add-builtin', kind='addb'))
    return out

def lex(I, sql):
    """reference SQL lexer over a (partly symbolic) text: returns (skeleton chars with each literal replaced by 0, literals)"""
    skel = []; lits = []; i = 0; n = len(sql)
    while i < n:
        c = sql[i]
        if hlib.truthy(I, c == 39):
            i += 1; cur = []
            closed = False
            while i < n:
                c2 = sql[i]
                if hlib.truthy(I, c2 == 39):
                    if i + 1 < n and hlib.truthy(I, sql[i + 1] == 39):
                        cur.append(39); i += 2; continue
                    closed = True; i += 1; break
                cur.append(c2); i += 1
            lits.append((tuple(cur), closed)); skel.append(0)
        else:
            skel.append(c); i += 1
    return skel, lits

def check_sql(I, sql, skeleton, literals, label):
    skel, lits = lex(I, list(sql))
    I.h_sql = tuple(sql)
    expect(I, len(lits) == len(literals) and all(cl for _, cl in lits), label + ':literal-structure', dict(sql=tuple(sql), literals=[l for l, _ in lits], want=literals))
    want_skel = []
    for part in skeleton:
        want_skel += [0] if part is None else list(lit(part))
    ok = len(skel) == len(want_skel)
    if ok:
        conds = []
        for a, b_ in zip(skel, want_skel):
            if is_sym(a): conds.append(a == b_)
            elif a != b_: ok = False; break
        if ok: ok = b_and(*conds) if conds else True
    expect(I, ok, label + ':statement-skeleton', dict(sql=tuple(sql)))
    for (got, _), want in zip(lits, literals):
        ok = str_eq(tuple(got), tuple(want)) if len(got) == len(want) else False
        expect(I, ok, label + ':literal-value', dict(sql=tuple(sql), got=tuple(got), want=tuple(want)))

def install(I):
    I.env = models_env.Env(I, {'HOME': '/home/u', 'PATH': '/bin', 'HISTORY_FILE': '/h/h.db'}, unknown='unset')
    I.env.exists_handler = lambda I_, path, which: True
    captured = []
    I.stubs['Connection::open'] = lambda I_, a, c: OK(Opaque('Conn'))
    def cap(I_, a, c):
        captured.append(I.str_of(a[1])); raise EndPath('sql')
    for k in ('Connection::execute', 'Connection::prepare'):
        I.stubs[k] = cap
    return captured

def trim_ref(I, chars):
    """reference for str::trim on symbolic characters: decide white space per character from both ends"""
    cs = list(chars)
    def is_ws(c):
        if not is_sym(c): return chr(c) in WS
        return hlib.truthy(I, z3.Or(*[c == ord(w) for w in WS]))
    while cs and is_ws(cs[0]): cs.pop(0)
    while cs and is_ws(cs[-1]): cs.pop()
    return cs

def body(inst, b):
    n = b['n']
    def h(I):
        p = I.prog
        captured = install(I)
        kind = inst['kind']
        sym = lambda tag, k: [I.sym_char('%s%d' % (tag, i), exclude='\x00') for i in range(k)]
        sess = lit('ab12-cd34')
        if kind in ('insert', 'addb'):
            line = sym('l', n) if inst.get('what', 'line') in ('line', 'both') else list(lit('echo hi'))
            d = list(lit('/w/')) + (sym('d', n) if inst.get('what') in ('dir', 'both') else list(lit('dir')))
            I.h_line = tuple(line); I.h_dir = tuple(d)
            sh = hlib.mk_shell(I); cell = [sh]
            hlib.set_field(p, sh, 'current_dir', RString(d)); hlib.set_field(p, sh, 'session_id', RString(sess))
            try:
                if kind == 'insert': I.call_fn('history::add_raw', [Ref(cell, 0), tuple(line), 0, 1.5, 2.5])
                else: I.call_fn('builtins::history::add_history', [Ref(cell, 0), 7.0, tuple(line)])
            except EndPath as e:
                if e.reason != 'sql': raise
            expect(I, len(captured) == 1, 'insert:no-statement', None)
            t = trim_ref(I, line)
            nums = ', 0, 1.5, 2.5, ' if kind == 'insert' else ', 0, 7, 8, '
            check_sql(I, captured[0], ['INSERT INTO cicada_history (inp, rtn, tsb, tse, sessionid, info) VALUES(', None, nums, None, ', ', None, ');'],
                      [tuple(t), sess, tuple(list(lit('dir:')) + d + [ord('|')])], 'insert')
            return dict(sql=captured[0])
        if kind == 'select':
            pat = sym('p', n) if inst['pat'] else []
            d = list(lit('/w/')) + (sym('d', n) if inst['pwd'] else list(lit('dir')))
            I.h_pat = tuple(pat); I.h_dir = tuple(d)
            sh = hlib.mk_shell(I); cell = [sh]
            hlib.set_field(p, sh, 'current_dir', RString(d)); hlib.set_field(p, sh, 'session_id', RString(sess))
            asc = I.choose('asc', 2) == 1
            opt = hlib.mk_struct(p, 'OptMain', session=inst['sess'], asc=asc, pwd=inst['pwd'], only_id=False, no_id=False, show_date=False, limit=20,
                                 pattern=RString(pat), cmd=NONE)
            oc = [opt]; cc = [Opaque('Conn')]
            try: I.call_fn('list_current_history', [Ref(cell, 0), Ref(cc, 0), Ref(oc, 0)])
            except EndPath as e:
                if e.reason != 'sql': raise
            expect(I, len(captured) == 1, 'select:no-statement', None)
            skeleton = ['SELECT ROWID, inp, tsb FROM cicada_history WHERE ROWID > 0']; lits = []
            if pat:
                skeleton += [' AND inp LIKE ', None]; lits.append(tuple([37] + pat + [37]))
            if inst['sess']:
                skeleton += [' AND sessionid = ', None]; lits.append(sess)
            if inst['pwd']:
                skeleton += [' AND info like ', None]; lits.append(tuple(list(lit('%dir:')) + d + list(lit('|%'))))
            skeleton.append(' ORDER BY tsb limit 20 ' if asc else ' order by tsb desc limit 20 ')
            # merge adjacent text parts
            check_sql(I, captured[0], skeleton, lits, 'select')
            return dict(sql=captured[0])
        if kind == 'delete':
            rid = I.sym_int('rowid', 64, 0, 40, signed=False)
            cc = [Opaque('Conn')]
            try: I.call_fn('delete_history_item', [Ref(cc, 0), rid])
            except EndPath as e:
                if e.reason != 'sql': raise
            expect(I, len(captured) == 1, 'delete:no-statement', None)
            sql = captured[0]; I.h_sql = tuple(sql)
            v = I.concretize(rid)
            w_ = lit('DELETE from cicada_history where rowid = %d' % v)
            expect(I, str_eq(tuple(sql), w_) if len(sql) == len(w_) else False, 'delete:statement', dict(sql=tuple(sql), rowid=v))
            return dict(sql=sql)
    return h

# ---- native --------------------------------------------------------------------------------------------------------
def native(v, timeout=20):
    root = tempfile.mkdtemp(prefix='cicada-verif-c18-')
    try:
        db = os.path.join(root, 'h.db')
        c = sqlite3.connect(db)
        c.execute('CREATE TABLE IF NOT EXISTS cicada_history (inp TEXT, rtn INTEGER, tsb REAL, tse REAL, sessionid TEXT, out TEXT, info TEXT)')
        for i, t in enumerate(['first row', 'second row']):
            c.execute('INSERT INTO cicada_history (inp, rtn, tsb, tse, sessionid, info) VALUES(?, 0, ?, ?, ?, ?)', (t, float(i), float(i) + 1, 'other', 'dir:/elsewhere|'))
        c.commit(); c.close()
        dname = v.get('dir', '/w/dir')[3:] or 'dir'
        if '/' in dname or dname in ('.', '..') or '\x00' in dname: return dict(skipped='directory name not creatable')
        try:
            wd = os.path.join(root, dname); os.makedirs(wd, exist_ok=True)
        except (OSError, UnicodeEncodeError, ValueError): return dict(skipped='directory name not creatable')
        env = {'HOME': root, 'PATH': '/usr/bin:/bin', 'HISTORY_FILE': db, 'LANG': 'C.UTF-8'}
        def q(s): return "'" + s + "'" if "'" not in s else '"' + s + '"'
        if v['kind'] in ('insert', 'addb'):
            line = v['line']
            if any(ch in line for ch in '\'"$`\\!\n') and ("'" in line and '"' in line or any(ch in line for ch in '$`\\!\n') and "'" in line):
                return dict(skipped='line not expressible as one quoted word')
            argv = [CICADA, '-c', 'history add ' + q(line)]
            p_ = subprocess.run(argv, cwd=wd, env=env, stdin=subprocess.DEVNULL, stdout=subprocess.PIPE, stderr=subprocess.PIPE, timeout=timeout)
            rows = list(sqlite3.connect(db).execute('select inp, info from cicada_history order by rowid'))
            want = line.strip()
            ok = len(rows) == 3 and rows[2][0] == want and rows[2][1] == 'dir:%s|' % wd and rows[0][0] == 'first row' and rows[1][0] == 'second row'
            return dict(command=argv[2], cwd=wd, rows=rows, stderr=p_.stderr.decode('utf-8', 'replace')[-300:], expected_row=[want, 'dir:%s|' % wd], reproduced=not ok)
        if v['kind'] == 'select':
            # rows that must be found: one containing the pattern, recorded in this directory
            pat = v.get('pat', '')
            c = sqlite3.connect(db)
            c.execute('INSERT INTO cicada_history (inp, rtn, tsb, tse, sessionid, info) VALUES(?, 0, 5.0, 6.0, ?, ?)', ('x' + pat + 'y', 'other', 'dir:%s|' % wd))
            c.commit(); c.close()
            flags = ['-p'] if v.get('pwd') else []
            if "'" in pat and '"' in pat or any(ch in pat for ch in '$`\\!\n'): return dict(skipped='pattern not expressible as one quoted word')
            argv = [CICADA, '-c', ' '.join(['history', '-n'] + flags + ([q(pat)] if pat else []))]
            p_ = subprocess.run(argv, cwd=wd, env=env, stdin=subprocess.DEVNULL, stdout=subprocess.PIPE, stderr=subprocess.PIPE, timeout=timeout)
            out = p_.stdout.decode('utf-8', 'replace'); err = p_.stderr.decode('utf-8', 'replace')
            found = ('x' + pat + 'y') in out.split('\n')
            return dict(command=argv[2], cwd=wd, stdout=out[-300:], stderr=err[-300:], reproduced=(not found) or 'error' in err)
        return dict(skipped='no native replay for this kind')
    except subprocess.TimeoutExpired:
        return dict(hang=True, reproduced=True)
    finally:
        shutil.rmtree(root, ignore_errors=True)

def run_instance(prog, inst, tier, seed, deadline):
    b = BOUNDS[tier]
    S = explore.chars_to_str
    def rec(l, I):
        m = l.model
        r = dict(kind=inst['kind'], instance=inst['name'], pwd=inst.get('pwd'))
        for k in ('line', 'dir', 'pat', 'sql'):
            if hasattr(I, 'h_' + k): r[k] = S(m, getattr(I, 'h_' + k))
        return r
    def on_violation(l, I):
        r = rec(l, I); r['label'] = l.msg
        texts = ''.join(r.get(k, '') for k in ('line', 'pat')) + r.get('dir', '')[3:]
        which = 'dir' if "'" in r.get('dir', '') else 'pattern' if "'" in r.get('pat', '') else 'line' if "'" in r.get('line', '') else 'other'
        r['key'] = '%s:unescaped-quote-in-%s' % (inst['kind'], which) if which != 'other' else '%s:%s' % (inst['kind'], l.msg)
        return r
    def on_ok(l, I):
        if (l.decisions + seed) % 2 or inst['kind'] not in ('insert', 'select'): return None
        r = rec(l, I)
        if any(ord(c) < 32 for c in r.get('line', '') + r.get('pat', '') + r.get('dir', '')): return None
        n = native(r)
        if n.get('skipped'): return None
        if n.get('reproduced'): return ('mismatch', dict(r, native=n))
        return ('validated', 1)
    def on_panic(l, I):
        r = rec(l, I); r.update(label='crash', key='crash:%s' % str(l.msg)[:40]); return r
    return hsupport.run_paths(prog, body(inst, b), deadline, on_ok=on_ok, on_violation=on_violation, on_panic=on_panic, step_budget=600_000)

def replay(v):
    r = native(v)
    r.setdefault('reproduced', None)
    r['witness'] = {k: v[k] for k in ('line', 'dir', 'pat', 'sql') if k in v}
    return r

def replay_file(path):
    d = json.load(open(path)); r = replay(d['violation']); print(json.dumps(r, indent=1, default=str))
    if r.get('reproduced'):
        print('VIOLATION property=%s replay=%s' % (PROPERTY, path)); return 1
    return 0

def finish(pid, tier, seed, results, known, wall, th, log):
    agg = hsupport.merge(results)
    hsupport.report_issues(agg, log)
    code, lines, new, nknown = hsupport.triage(pid, agg, known, lambda v: v['key'], replay, log, max_replays_per_key=8)
    for ln in lines: print(ln)
    extra = dict(bounds=BOUNDS[tier], instances=len(results), repo_tree=th, violating_paths=len(agg['violations']), new_violations=new, known_findings_reproduced=nknown)
    hsupport.write_evidence(pid, tier, seed, agg, wall, extra, ASSUMPTIONS, new)
    log('paths=%d queries=%d solver=%.1fs validated=%d violations(paths)=%d new=%d known=%d -> exit %d' % (
        agg['paths'], agg['queries'], agg['solver_s'], agg['validated'], len(agg['violations']), new, nknown, code))
    return code
