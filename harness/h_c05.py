"""C05 - no input line crashes or hangs the shell.

Encoded (MIR): the whole path a line takes in `cicada -c` / at the prompt up to the first process creation:
execute::run_command_line -> line_to_cmds -> run_proc -> CommandLine::from_line (parse_line, all expansions,
drain_env_tokens, split_tokens_by_pipes, Command::from_tokens, tokens_to_redirections) -> core::run_pipeline
(try_run_calculator classification, try_run_func, builtin dispatch) ; plus the interactive pre-passes
shell::trim_multiline_prompts, tools::extend_bangbang and the script pre-pass scripting::expand_args.
Symbolic: every character of the line (no skeleton).  Asserted: no reachable panic site (unwrap/expect on None/Err,
index or slice out of bounds, arithmetic overflow in the dev profile, explicit panics) and no non-terminating loop.
A step-budget exhaustion is a hang *candidate*; it counts only if the native build hangs as well."""
import json, os, shutil, subprocess, tempfile, time
import z3
import hsupport, hlib, explore, models_env, native as nativemod
from engine import (lit, Ref, Agg, RString, is_sym, str_eq, ch_eq, b_and, UNIT, EndPath, OK, ERR, Opaque, RVec)
from explore import expect, conc, Violation

PROPERTY = 'C05'
HELPERS = os.path.join(hsupport.VERIF, 'helpers/bin')
CICADA = os.path.join(hsupport.VERIF, 'build/bin/debug/cicada')
BUDGET = {'quick': 900, 'thorough': 1500}
BOUNDS = {'quick': dict(cmdline=3, pre=3, hl=3, ws=4), 'thorough': dict(cmdline=3, pre=4, hl=4, ws=5)}
ASSUMPTIONS = [
    'bounded: every line of <= n characters (see coverage.bounds), each character an arbitrary Unicode scalar except NUL and newline; longer lines are outside the claim',
    'paths end (successfully) at the first pipe()/fork(), at a builtin body, at the pest calculator parser and at a function body: process creation is C02/C08, builtins C04/C09, pest is not in the crate MIR',
    'stub std::env::var: HOME, PATH set, other names unset; glob::glob returns one match built from the pattern; command substitution returns an arbitrary one-character output',
    'dev profile (overflow checks on), which is what `cargo build` produces; the release profile wraps instead of panicking',
    'the highlighter (highlight.rs) and the completion word-boundary search (completers::escaped_word_start) are driven directly; the lineread editor around them is outside',
    'a hang is reported only when the native binary also does not terminate within the watchdog',
]

PREPASS = ['trim_multiline_prompts', 'extend_bangbang', 'expand_args', 'is_arithmetic']
EDITOR = {'highlight': 'hl', 'escaped_word_start': 'ws'}
def instances(tier, seed):
    b = BOUNDS[tier]
    out = []
    for n in range(0, b['cmdline'] + 1):
        out.append(dict(name='cmdline/%d' % n, stage='cmdline', n=n))
    for n in range(1, b['pre'] + 1):
        for fn in PREPASS:
            out.append(dict(name='prepass:%s/%d' % (fn, n), stage='prepass', fn=fn, n=n))
    for fn, bk in EDITOR.items():
        for n in range(1, b[bk] + 1):
            if n == b[bk] and fn == 'highlight':
                for k, cls in enumerate(FIRST_CLASSES):
                    out.append(dict(name='prepass:%s/%d/first=%s' % (fn, n, cls[0]), stage='prepass', fn=fn, n=n, first=k))
            else:
                out.append(dict(name='prepass:%s/%d' % (fn, n), stage='prepass', fn=fn, n=n))
    # directed long lines: concrete texts beyond the symbolic length bound (64-bit extremes of the calculator, deep nesting,
    # long runs of one special character); they run through the same path, the calculator body included
    for k, text in enumerate(DIRECTED):
        out.append(dict(name='directed/%d' % k, stage='directed', n=0, text=text))
    # the largest instance is split by its first character class so that 16 workers share it
    big = [i for i in out if i['n'] == b['cmdline'] and i['stage'] == 'cmdline']
    for i in big:
        out.remove(i)
        for k, cls in enumerate(FIRST_CLASSES):
            out.append(dict(i, name='%s/first=%s' % (i['name'], cls[0]), first=k))
    for i in out:
        if i['n'] >= 3 and i['stage'] != 'directed': i['_split'] = 5
    out.sort(key=lambda i: -i['n'])
    return out

DIRECTED = ['-9223372036854775808 / -1', '(0 - 9223372036854775807 - 1) / (0 - 1)', '9223372036854775807 + 1', '-9223372036854775808 - 1',
            '9223372036854775807 * 9223372036854775807', '2 ^ 63', '2 ^ 64', '-2 ^ 63', '0 ^ 0', '1 / 0', '1.0 / 0', '0 / 0', '1 / 0.0',
            '99999999999999999999 + 1', '1e3 + 1', '1.5 ^ 2', '9223372036854775807 / -1', '-9223372036854775808 * -1', '7 / 2 * 2',
            '((((((((((1))))))))))+1', '1 +', '(1 + 2', '1 + 2)', '1 ++ 2', '1 .. 2', '. + 1', '2 ^ 3 ^ 2', '2 ^ -1', '10 - 3 - 4 - 5 - 6',
            '((((((((((((', '))))))))))))', '$($($($(', '${${${${', '"' * 15, "'" * 15, '`' * 7, '\\' * 9 + '\\', 'a' * 60, '| ' * 8, '&& ' * 10, '; ' * 8,
            '> ' * 8, '< ' * 8, '{' * 12 + '}' * 12, '{1..2}' * 4, '~' * 9, '*' * 9, '$' * 7, '#' * 9, '!' * 9, 'a=' * 10, '$?' * 10,
            'echo ' + '$A' * 5, 'echo "' + '$(' * 6, 'x `' * 5, 'a\\ ' * 12, 'echo {a,b}{c,d}{e,f}{g,h}', 'echo {1..20..3}{1..3}']

# partition of the first character (for parallelism only; the union is all scalars)
FIRST_CLASSES = [('sp', [32]), ('dq', [34]), ('sq', [39]), ('bq', [96]), ('bs', [92]), ('dollar', [36]), ('pipe', [124]), ('amp', [38]),
                 ('semi', [59]), ('lt', [60]), ('gt', [62]), ('lp', [40]), ('rp', [41]), ('lb', [123]), ('hash', [35]), ('tilde', [126]),
                 ('star', [42]), ('digit', list(range(48, 58))), ('other', None)]

def first_constraint(c, k):
    name, cps = FIRST_CLASSES[k]
    if cps is not None:
        return z3.Or(*[c == x for x in cps])
    allc = [x for _, cp in FIRST_CLASSES if cp for x in cp]
    return z3.And(*[c != x for x in allc])

def install_stubs(I):
    import h_c01
    h_c01.install_stubs(I)
    del I.stubs['run_pipeline']
    p = I.prog
    I.capture_depth = 0
    def end(reason):
        def f(I_, a, callee): raise EndPath(reason)
        return f
    # command substitution calls run_pipeline(capture=true) recursively: return an arbitrary output there,
    # but let the top-level call run its real planning code
    orig = p.lookup('run_pipeline')
    def run_pipeline_stub(I_, a, callee):
        tty, capture = a[2], a[3]
        if capture is True and I.in_expansion > 0:
            I.adversarial.append('capture')
            n = len(I.adversarial)
            cr = hlib.mk_struct(p, 'CommandResult', gid=0, status=0, stdout=RString([I.sym_char('capout%d' % n)]), stderr=RString())
            return Agg(None, [False, cr])
        return I.exec_fn(orig, a)
    I.stubs['run_pipeline'] = run_pipeline_stub
    I.in_expansion = 0
    orig_exp = p.lookup('do_expansion')
    def do_expansion_wrap(I_, a, callee):
        I.in_expansion += 1
        try: return I.exec_fn(orig_exp, a)
        finally: I.in_expansion -= 1
    I.stubs['do_expansion'] = do_expansion_wrap
    I.stubs['pipe'] = end('pipe')
    I.stubs['pipes::pipe'] = end('pipe')
    I.stubs['libs::fork::fork'] = end('fork')
    I.stubs['fork'] = end('fork')
    I.stubs['fork::fork'] = end('fork')
    I.stubs['try_run_builtin'] = end('builtin')
    I.stubs['calculate'] = end('calculator-parser')
    I.stubs['calculator::calculate'] = end('calculator-parser')
    I.stubs['run_lines'] = end('function-body')
    I.stubs['libc::isatty'] = lambda I_, a, c: 0
    I.stubs['libc::getpgid'] = lambda I_, a, c: 1

def body(inst):
    n = inst['n']
    def h(I):
        install_stubs(I)
        if inst['stage'] == 'directed':
            for k_ in ('calculate', 'calculator::calculate'): I.stubs.pop(k_, None)      # the calculator body runs (pest model)
            line = lit(inst['text']); I.h_line = line
            cell = [hlib.mk_shell(I)]
            I.call_fn('run_command_line', [Ref(cell, 0), line, False, False])
            return {'done': 'run_command_line'}
        cs = [I.sym_char('c%d' % i) for i in range(n)]
        if 'first' in inst and n > 0:
            I.ctx.assume(first_constraint(cs[0], inst['first']))
        line = tuple(cs)
        I.h_line = line
        if inst['stage'] == 'cmdline':
            cell = [hlib.mk_shell(I)]
            I.call_fn('run_command_line', [Ref(cell, 0), line, False, False])
            return {'done': 'run_command_line'}
        # interactive / script pre-passes
        fn = inst['fn']
        if fn == 'trim_multiline_prompts':
            I.call_fn('trim_multiline_prompts', [line])
        elif fn == 'extend_bangbang':
            cell = [hlib.mk_shell(I, previous_cmd='ls -l')]
            ls = [RString(line)]
            I.call_fn('extend_bangbang', [Ref(cell, 0), Ref(ls, 0)])
        elif fn == 'expand_args':
            args = RVec([RString(lit('script')), RString(lit('a b'))])
            I.call_fn('scripting::expand_args', [line, Slice_of(args)])
        elif fn == 'highlight':
            cell = [Agg('CicadaHighlighter', [])]
            I.call_fn('<CicadaHighlighter as Highlighter>::highlight', [Ref(cell, 0), line])
        elif fn == 'escaped_word_start':
            I.call_fn('completers::escaped_word_start', [line])
        else:
            I.call_fn('is_arithmetic', [line])
        return {'done': fn}
    return h

def Slice_of(v):
    from engine import Slice
    return Slice(v.v, 0, len(v.v))

def binary_run(line, timeout=4, files=()):
    """`cicada -c <line>` in a scratch directory with only the helper programs on PATH"""
    d = tempfile.mkdtemp(prefix='cicada-verif-c05-')
    try:
        import h_c01
        h_c01.make_files(d, ['f1', 'f2'] + list(files))
        env = {'HOME': '/home/u', 'PATH': HELPERS, 'LANG': 'C.UTF-8', 'RUST_BACKTRACE': '0'}
        try:
            p = subprocess.run([CICADA, '-c', line], cwd=d, env=env, stdin=subprocess.DEVNULL, stdout=subprocess.PIPE, stderr=subprocess.PIPE, timeout=timeout)
        except subprocess.TimeoutExpired:
            return dict(line=line, outcome='hang')
        err = p.stderr.decode('utf-8', 'replace')
        if p.returncode == 101 or 'panicked at' in err:
            site = ''
            for ln in err.split('\n'):
                if 'panicked at' in ln: site = ln.strip()
            return dict(line=line, outcome='crash', site=site, stderr=err[-300:])
        if p.returncode < 0:
            return dict(line=line, outcome='crash', site='signal %d' % -p.returncode)
        return dict(line=line, outcome='ok', status=p.returncode)
    finally:
        shutil.rmtree(d, ignore_errors=True)

def native_outcome(inst, line, files=()):
    if inst['stage'] == 'directed':
        return binary_run(' ' + line if line.startswith('-') else line, files=files)     # a leading blank keeps `-...` from being read as an option of cicada
    if inst['stage'] == 'cmdline':
        if line.startswith('-'):      # would be read as an option of cicada itself, not as a line
            return dict(outcome='skip')
        return binary_run(line, files=files)
    nat = nativemod.Native(timeout=8)
    try:
        calls = {'trim_multiline_prompts': ('trim_multiline_prompts', [line]), 'expand_args': ('expand_args', [line, 'script', 'a b']), 'is_arithmetic': ('is_arithmetic', [line]), 'highlight': ('highlight', [line]), 'escaped_word_start': ('escaped_word_start', [line])}
        for fn, args in ([calls[inst['fn']]] if inst.get('fn') in calls else []):
            try: r = nat.call(fn, *args)
            except nativemod.NativeHang: return dict(outcome='hang', fn=fn)
            if isinstance(r, dict) and ('panic' in r or 'crash' in r): return dict(outcome='crash', site=str(r), fn=fn)
        return dict(outcome='ok')
    finally:
        nat.close()

def minimize_line(inst, line, outcome, files=()):
    """shortest/most ordinary line with the same native outcome kind: drop characters, then replace by 'a'"""
    cur = list(line)
    def same(chars):
        return native_outcome(inst, ''.join(chars), files).get('outcome') == outcome
    i = 0
    while i < len(cur):
        cand = cur[:i] + cur[i + 1:]
        if cand and same(cand): cur = cand
        else: i += 1
    for i in range(len(cur)):
        if cur[i] != 'a':
            cand = cur[:i] + ['a'] + cur[i + 1:]
            if same(cand): cur = cand
    return ''.join(cur)

def run_instance(prog, inst, tier, seed, deadline):
    seen = {}
    def line_of(l):
        if inst['stage'] == 'directed': return inst['text']
        return ''.join(chr(l.inputs['c%d' % i]) for i in range(inst['n']))
    def site_key(where, msg):
        fn = (where or ['?'])[-1]
        fn = fn.split('>::')[-1] if '<impl at' in fn else fn
        m = (msg or '')
        kind = 'index' if 'index out of bounds' in m or 'out of range' in m or 'removal index' in m else \
               'overflow' if 'attempt to' in m else 'unwrap' if 'called `' in m else 'boundary' if 'char boundary' in m else 'panic'
        return fn, kind
    def on_panic(l, I):
        if l.status == 'exit': return None
        line = line_of(l)
        fn, kind = site_key(l.where, l.msg)
        sk = (fn, kind)
        if sk in seen and seen[sk]['n'] >= 3:
            seen[sk]['n'] += 1
            return dict(label='crash', line=line, key='crash:%s:%s' % sk, min_line=seen[sk]['min'], site=l.msg, where=l.where)
        import h_c01
        files = [f for f in (explore.chars_to_str(l.model, g) for g in getattr(I, 'glob_results', [])) if h_c01.ok_filename(f)]
        out = native_outcome(inst, line, files)
        if out.get('outcome') == 'skip': return None
        if out.get('outcome') != 'crash':
            return dict(label='crash', line=line, key='unreproduced-crash:%s:%s' % sk, site=l.msg, where=l.where, native=out, files=files)
        mn = line if inst['stage'] == 'directed' else minimize_line(inst, line, 'crash', files)
        seen.setdefault(sk, {'n': 0, 'min': mn})['n'] += 1
        return dict(label='crash', line=line, key='crash:%s:%s' % sk, min_line=mn, site=l.msg, where=l.where, native=out, files=files)
    def on_budget(l, I):
        if l.inputs is None: return None
        line = line_of(l)
        # the loop that does not terminate: innermost crate function that is not a leaf helper
        loopfn = '?'
        for w in reversed(l.where or []):
            if w not in ('re_contains', 'env_in_token', 'expand_one_env', 'find_first_group') and '<impl' not in w:
                loopfn = w; break
        definite = 'loop state repeats' in (l.msg or '')
        hk = ('hang', loopfn)
        if definite and hk in seen and seen[hk]['n'] >= 2:
            seen[hk]['n'] += 1
            return dict(label='hang', line=line, key='hang:%s' % loopfn, min_line=seen[hk]['min'], where=l.where, files=seen[hk].get('files', []))
        import h_c01
        files = [f for f in (explore.chars_to_str(l.model, g) for g in getattr(I, 'glob_results', [])) if h_c01.ok_filename(f)]
        out = native_outcome(inst, line, files)
        if out.get('outcome') != 'hang':
            if definite:
                return dict(label='hang', line=line, key='unreproduced-hang:%s' % loopfn, where=l.where, files=files, native=out)
            return None
        mn = minimize_line(inst, line, 'hang', files) if hk not in seen else seen[hk]['min']
        seen.setdefault(hk, {'n': 0, 'min': mn, 'files': files})['n'] += 1
        return dict(label='hang', line=line, key='hang:%s' % loopfn, min_line=mn, where=l.where, files=files)
    def on_ok(l, I):
        # translation validation of the verdict "terminates without crashing": a deterministic share of the leaves
        # is run through the real binary
        k = 8 if tier == 'quick' else 32
        if (l.decisions + seed) % k != 0: return None
        # the native run continues beyond the harness's end points and sees the real file system
        if I.adversarial or I.env.pid is not None: return None
        if isinstance(l.payload, dict) and l.payload.get('end') in ('builtin', 'function-body', 'calculator-parser'): return None
        line = line_of(l)
        out = native_outcome(inst, line)
        if out.get('outcome') in ('ok', 'skip'): return ('validated', 1)
        return ('mismatch', dict(line=line, symbolic='terminates', native=out))
    return hsupport.run_paths(prog, body(inst), deadline, on_ok=on_ok, on_panic=on_panic, on_budget=on_budget, step_budget=600_000,
                             prefix=inst.get('_prefix'), split_depth=inst.get('_split'))

def replay(v):
    inst = dict(stage='cmdline' if not v.get('stage') else v['stage'])
    line = v.get('min_line') or v['line']
    stage = 'prepass' if v.get('instance', '').startswith('prepass') else 'cmdline'
    fnname = v.get('instance', '').split(':')[-1].split('/')[0] if stage == 'prepass' else None
    files = v.get('files', ())
    out = native_outcome(dict(stage=stage, fn=fnname), line, files)
    want = 'hang' if v['label'] == 'hang' else 'crash'
    if out.get('outcome') != want and line != v['line']:
        line = v['line']; out = native_outcome(dict(stage=stage, fn=fnname), line, files)
    return dict(line=line, native=out, reproduced=out.get('outcome') == want, witness=line)

def replay_file(path):
    d = json.load(open(path))
    r = replay(d['violation'])
    print(json.dumps(r, indent=1, ensure_ascii=False))
    if r['reproduced']:
        print('VIOLATION property=%s replay=%s' % (PROPERTY, path)); return 1
    return 0

def finish(pid, tier, seed, results, known, wall, th, log):
    agg = hsupport.merge(results)
    hsupport.report_issues(agg, log)
    code, lines, new, nknown = hsupport.triage(pid, agg, known, lambda v: v['key'], replay, log)
    for ln in lines: print(ln)
    extra = dict(bounds=BOUNDS[tier], repo_tree=th, violating_paths=len(agg['violations']), new_violations=new, known_findings_reproduced=nknown,
                 distinct_violation_keys=len(set(v['key'] for v in agg['violations'])))
    hsupport.write_evidence(pid, tier, seed, agg, wall, extra, ASSUMPTIONS, new)
    log('paths=%d queries=%d solver=%.1fs validated=%d violations(paths)=%d new=%d known=%d -> exit %d' % (
        agg['paths'], agg['queries'], agg['solver_s'], agg['validated'], len(agg['violations']), new, nknown, code))
    return code
