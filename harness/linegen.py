"""Rendering of argument lists into command lines in the three quoting styles of property C01 (shared by C01/C16)."""
import z3
from engine import is_sym, lit

# the property's own list of shell-special characters (quantifier of C01) + blank and tab
SPECIALS = '|&;<>()$`\\"\'*?[]{},~#!=%^ \t'
SPECIAL_CPS = [ord(c) for c in SPECIALS]

_sp_cache = {}
_cid_cache = {}
def is_special(c):
    if not is_sym(c): return c in SPECIAL_CPS
    k = c.get_id()
    r = _sp_cache.get(k)
    if r is None:
        r = z3.Or(*[c == x for x in SPECIAL_CPS]); _sp_cache[k] = r
    return r

def class_id(c):
    """abstract class of a character: each special is its own class, then ordinary ASCII (1000), other (1001)"""
    if not is_sym(c):
        if c in SPECIAL_CPS: return c
        return 1000 if c < 128 else 1001
    k = c.get_id()
    e = _cid_cache.get(k)
    if e is None:
        e = z3.If(z3.ULT(c, 128), z3.BitVecVal(1000, 32), z3.BitVecVal(1001, 32))
        for x in SPECIAL_CPS:
            e = z3.If(c == x, z3.BitVecVal(x, 32), e)
        _cid_cache[k] = e
    return e

def class_name(cp):
    if cp in SPECIAL_CPS: return chr(cp)
    return 'o' if cp < 128 else 'M'

STYLE_EXCLUDE = {'S': "'", 'D': '$`\\"', 'E': ''}

def sym_arg(I, name, style, n):
    """n symbolic characters admissible inside an argument written in `style`"""
    return [I.sym_char('%s_%d' % (name, i), exclude=STYLE_EXCLUDE[style]) for i in range(n)]

def render_arg(I, style, chars):
    """source text of one argument (list of chars); the escaped style forks on whether a char needs a backslash"""
    if style == 'S': return [39] + list(chars) + [39]
    if style == 'D': return [34] + list(chars) + [34]
    out = []
    for c in chars:
        sp = is_special(c)
        if is_sym(sp): sp = I.branch(sp)
        if sp: out.append(92)
        out.append(c)
    return out

def render_arg_concrete(style, text):
    if style == 'S': return "'" + text + "'"
    if style == 'D': return '"' + text + '"'
    return ''.join(('\\' + ch if ch in SPECIALS else ch) for ch in text)

POSITIONS = {'end': '', 'pipe': ' | cat', 'semi': ' ; true', 'and': ' && true', 'or': ' || true'}

def compositions(total, k, mins):
    """all length vectors of k parts summing to exactly `total` with part i >= mins[i]"""
    if k == 0:
        if total == 0: yield []
        return
    for a in range(mins[0], total + 1):
        for rest in compositions(total - a, k - 1, mins[1:]):
            yield [a] + rest

def shapes(max_args, max_chars, styles='SDE'):
    """(styles tuple, lengths tuple) for every argument list within the bound"""
    import itertools
    out = []
    for k in range(0, max_args + 1):
        for st in itertools.product(styles, repeat=k):
            mins = [1 if s == 'E' else 0 for s in st]
            for total in range(0, max_chars + 1):
                for lens in compositions(total, k, mins):
                    out.append((''.join(st), tuple(lens)))
    return sorted(set(out))
