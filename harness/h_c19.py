"""C19 - arithmetic lines evaluate with standard precedence and never crash the shell.

Encoded (MIR): tools::is_arithmetic, core::run_calculator (mode selection by '.'), calculator::calculate,
eval_int / eval_float with their primary and infix closures, the PrattParser table built by the lazy_static
initialiser (Op::infix(rule, assoc) sequence).  pest itself is modelled (pestmodel.py: PEG evaluator over
/repo's calculator/grammar.pest, Pratt algorithm after pest's source).
 classify : every line of n symbolic characters over the arithmetic alphabet with >= 1 digit and >= 1 operator must be
            classified as arithmetic; the same lines go through run_calculator: no panic in the dev profile
 kernel   : `A op B` with symbolic decimal operands: value == wrapping / truncating reference, defined /0, no panic
 prec     : every expression shape with <= 3 operators over symbolic one-digit operands, with and without
            parentheses: value == exact reference with the standard precedence table
 directed : boundary literals (2^31, 2^63-1, 2^63, 20 digits, exponents 0..70, decimals)"""
import itertools, json, os
import z3
import hsupport, hlib, explore, native as nativemod
from engine import (lit, is_sym, str_eq, ch_eq, b_and, b_or, ch_in_range, wrap)
from explore import expect, conc, Violation
from models import int_to_chars

PROPERTY = 'C19'
BUDGET = {'quick': 900, 'thorough': 1500}
BOUNDS = {'quick': dict(classify=3, digits=2, prec_ops=2), 'thorough': dict(classify=3, digits=2, prec_ops=2)}
ASSUMPTIONS = [
    'pest is modelled, not executed: grammar read from /repo/src/calculator/grammar.pest by a PEG evaluator with pest\'s documented semantics, Pratt climbing after pest 2.8 pratt_parser.rs; every leaf is cross-checked against the native run_calculator',
    'classify: lines of <= n characters over [0-9.+-*/^() ] ; kernel: operands of <= digits symbolic decimal digits with optional sign; prec: one-digit operands, <= prec_ops operators; floats only for "cannot panic" and the directed cases',
    'dev profile (overflow checks on)',
]
ALPHA = '0123456789.+-*/^() '
OPS = '+-*/^'

def instances(tier, seed):
    b = BOUNDS[tier]
    out = []
    for n in range(2, b['classify'] + 1):
        out.append(dict(name='classify/%d' % n, kind='classify', n=n, _split=4))
    for op in OPS:
        out.append(dict(name='kernel64/%s' % {'+': 'add', '-': 'sub', '*': 'mul', '/': 'div', '^': 'pow'}[op], kind='kernel64', op=op))
    for op in OPS:
        for da in range(1, 2):
            for db in range(1, 2):
                for sa in ('', '-'):
                    out.append(dict(name='kernel/%s/%d,%d/%s' % ({'+': 'add', '-': 'sub', '*': 'mul', '/': 'div', '^': 'pow'}[op], da, db, 'neg' if sa else 'pos'),
                                    kind='kernel', op=op, da=da, db=db, sa=sa))
    for k in range(1, b['prec_ops'] + 1):
        for ops in itertools.product(OPS, repeat=k):
            if ops.count('^') > 1 and tier == 'quick': continue
            for par in range(0, k + 1):     # 0: none; j: parenthesise the j-th binary sub-expression
                out.append(dict(name='prec/%s/p%d' % (''.join({'+': 'a', '-': 's', '*': 'm', '/': 'd', '^': 'p'}[o] for o in ops), par), kind='prec', ops=list(ops), par=par))
    for ln in ['2147483648 * 2', '9223372036854775807 + 1', '9223372036854775808', '9223372036854775808 - 1', '99999999999999999999 + 1', '-9223372036854775808 / -1',
               '2 ^ 62', '2 ^ 63', '2 ^ 64', '2 ^ 70', '3 ^ 40', '0 ^ 0', '2 ^ -1', '1e3 + 1', '1.5e2 * 2', '7 / 0', '0 / 0', '-7 / 0', '7.0 / 0', '2 ^ 0.5', '1 / 3.0', '(((1)))+1', '1 + (2 * (3 - 4)) ^ 2',
               '10 - 2 - 3', '2 ^ 3 ^ 2', '100 / 10 / 5', '2 * 3 + 4', '2 + 3 * 4', '-2 ^ 2', '4 / 3 * 3']:
        out.append(dict(name='directed/' + ln.replace(' ', ''), kind='directed', line=ln))
    return out

# ---- reference evaluator over python ints (exact), i64 wrapping at every step as the statement's 64-bit integer arithmetic
def ref_binop(I, op, a, b):
    """a, b: python ints or z3 BV64; returns value (same domain) ; forks via I.branch where needed"""
    if not is_sym(a) and not is_sym(b):
        if op == '+': return wrap(a + b, 64, True)
        if op == '-': return wrap(a - b, 64, True)
        if op == '*': return wrap(a * b, 64, True)
        if op == '/':
            if b == 0: return None      # "a value or a diagnostic": any defined outcome
            q = abs(a) // abs(b); q = -q if (a < 0) != (b < 0) else q
            return wrap(q, 64, True)
        if op == '^':
            if b < 0 or b > 70: return None
            r = a ** b
            return r if -(1 << 63) <= r < (1 << 63) else None    # overflow: any defined outcome, but no crash
    A = a if is_sym(a) else z3.BitVecVal(a, 64); B = b if is_sym(b) else z3.BitVecVal(b, 64)
    if op == '+': return A + B
    if op == '-': return A - B
    if op == '*': return A * B
    if op == '/':
        if I.branch(B == 0): return None
        return A / B
    raise Exception('symbolic pow in reference')

def body(inst, b):
    kind = inst['kind']
    def h(I):
        if kind == 'classify':
            cs = [I.sym_char('c%d' % i) for i in range(inst['n'])]
            for c in cs: I.ctx.assume(z3.Or(*[c == ord(x) for x in ALPHA]))
            I.h_line = cs
            has_digit = b_or(*[ch_in_range(c, 48, 57) for c in cs])
            has_op = b_or(*[b_or(*[ch_eq(c, ord(o)) for o in OPS]) for c in cs])
            I.ctx.assume(b_and(has_digit, has_op))
            r = I.call_fn('is_arithmetic', [tuple(cs)])
            I.h_arith = r
            expect(I, r, 'not-classified-as-arithmetic', None)
            res = I.call_fn('run_calculator', [tuple(cs)])
            return dict(result=res)
        if kind == 'kernel':
            def digits(nm, n, lead_nonzero=True):
                ds = [I.sym_char('%s%d' % (nm, i)) for i in range(n)]
                for d in ds: I.ctx.assume(z3.And(z3.UGE(d, 48), z3.ULE(d, 57)))
                return ds
            A = digits('a', inst['da']); B = digits('b', inst['db'])
            line = list(lit(inst['sa'])) + A + [32, ord(inst['op']), 32] + B
            I.h_line = line
            def value(ds, neg):
                v = z3.BitVecVal(0, 64)
                for d in ds: v = v * 10 + (z3.ZeroExt(32, d) - 48)
                return -v if neg else v
            va = value(A, bool(inst['sa'])); vb = value(B, False)
            res = I.call_fn('run_calculator', [tuple(line)])
            expect(I, res.tag == 'Ok', 'rejected', None)
            got = I.str_of(res.f[0])
            I.h_got = got
            if inst['op'] == '^':
                bv = I.concretize(vb, limit=100)
                # reference by repeated multiplication; overflow -> any defined outcome
                acc = z3.BitVecVal(1, 64); ovf = False
                for _ in range(bv):
                    ok = z3.And(z3.BVMulNoOverflow(acc, va, True), z3.BVMulNoUnderflow(acc, va))
                    if not I.branch(ok): ovf = True; break
                    acc = acc * va
                want = None if ovf else acc
            else:
                want = ref_binop(I, inst['op'], va, vb)
            if want is not None:
                wc = int_to_chars(I, z3.simplify(want) if is_sym(want) else want)
                I.h_want = wc
                expect(I, str_eq(tuple(got), tuple(wc)), 'value', None)
            return dict(result=got)
        if kind == 'kernel64':
            # the infix closure of eval_int on arbitrary 64-bit operands (the arithmetic kernel itself)
            import pestmodel
            from engine import Opaque, Ref, Agg
            op = inst['op']
            rule = {'+': 'add', '-': 'subtract', '*': 'multiply', '/': 'divide', '^': 'power'}[op]
            lhs = I.sym_int('lhs', 64); rhs = I.sym_int('rhs', 64, 0, 70) if op == '^' else I.sym_int('rhs', 64)
            if op == '^':
                # exponents 0..70 (the property's range); the base is arbitrary for small exponents, small for large ones
                # 64-bit multiplication chains stall the bit-blaster: bases -12..12 x exponents 0..70 (both forked into
                # concrete values by the solver), plus the directed boundary cases
                I.ctx.assume(z3.And(lhs >= -12, lhs <= 12))
                lhs = I.concretize(lhs, limit=30)
            pair = Opaque('Pair', pestmodel.PairObj(pestmodel.Node(rule, 0, 1, []), lit(op), 'calculator'))
            clo = [Agg(('closure', 'x'), [])]
            I.h_line = None; I.h_ops = (op,)
            f = I.prog.lookup('eval_int::{closure#1}')
            r = I.exec_fn(f, [Ref(clo, 0), lhs, pair, rhs])
            if op in '+-*':
                want = {'+': lhs + rhs, '-': lhs - rhs, '*': lhs * rhs}[op]
                expect(I, r == want, 'value', None)
            elif op == '/':
                if not I.branch(rhs == 0):
                    expect(I, r == lhs / rhs, 'value', None)      # bvsdiv truncates toward zero; MIN / -1 wraps
            return dict(result=None)
        if kind == 'prec':
            ops = inst['ops']; k = len(ops)
            ds = [I.sym_char('d%d' % i) for i in range(k + 1)]
            for d in ds: I.ctx.assume(z3.And(z3.UGE(d, 48), z3.ULE(d, 57)))
            vals = [z3.ZeroExt(32, d) - 48 for d in ds]
            # text with optional parentheses around operand par-1 .. par
            toks = []
            for i in range(k + 1):
                if inst['par'] and i == inst['par'] - 1: toks.append(40)
                toks.append(ds[i])
                if inst['par'] and i == inst['par']: toks.append(41)
                if i < k: toks += [32, ord(ops[i]), 32]
            I.h_line = toks
            # as run_calculator does, but keeping the i64 (the textual result is covered by `kernel` and `directed`)
            import pestmodel
            from engine import Opaque
            pr = I.call_fn('calculate', [tuple(toks)])
            expect(I, pr.tag == 'Ok', 'rejected', None)
            first = I.deref(pr.f[0]).data.next(I)
            inner = Opaque('Pairs', pestmodel.PairsObj(first.data.node.children, first.data.text, first.data.ns))
            got = I.call_fn('eval_int', [inner])
            I.h_got = got
            want = ref_eval_sym(I, vals, ops, inst['par'])
            I.h_want = want
            if want is not None:
                expect(I, got == want, 'value', None)
            return dict(result=None)
        if kind == 'directed':
            line = lit(inst['line']); I.h_line = list(line)
            r = I.call_fn('is_arithmetic', [line])
            in_domain = all(ch in ALPHA for ch in inst['line']) and any(ch.isdigit() for ch in inst['line']) and any(ch in OPS for ch in inst['line'])
            if in_domain: expect(I, r, 'not-classified-as-arithmetic', None)
            res = I.call_fn('run_calculator', [line])
            I.h_got = I.str_of(res.f[0]) if res.tag == 'Ok' else None
            want = ref_line(inst['line'])
            if want is not None and res.tag == 'Ok':
                expect(I, str_eq(tuple(I.h_got), lit(want)), 'value', dict(want=want))
            return dict(result=I.h_got)
    return h

def ref_eval_sym(I, vals, ops, par):
    """the standard table over 64-bit bit-vector terms: ^ right associative and tightest, then * /, then + -.
    None = the statement leaves the value open (division by zero, overflowing power)"""
    toks = []
    for i, v in enumerate(vals):
        if par and i == par - 1: toks.append('(')
        toks.append(v)
        if par and i == par: toks.append(')')
        if i < len(ops): toks.append(ops[i])
    pos = [0]
    class Undefined(Exception): pass
    def peek(): return toks[pos[0]] if pos[0] < len(toks) else None
    def nxt(): t = toks[pos[0]]; pos[0] += 1; return t
    def primary():
        t = nxt()
        if isinstance(t, str) and t == '(':
            v = expr(); nxt(); return v
        return t
    def power():
        base = primary()
        if isinstance(peek(), str) and peek() == '^':
            nxt(); e = power()
            ev = I.concretize(e, limit=80) if is_sym(e) else e
            if ev >= (1 << 63): ev -= (1 << 64)
            if ev < 0 or ev > 70: raise Undefined()
            bv = I.concretize(base, limit=80) if is_sym(base) else base
            if bv >= (1 << 63): bv -= (1 << 64)
            r = bv ** ev
            if not (-(1 << 63) <= r < (1 << 63)): raise Undefined()
            return z3.BitVecVal(r, 64)
        return base
    def term():
        v = power()
        while isinstance(peek(), str) and peek() in ('*', '/'):
            o = nxt(); w = power()
            if o == '*': v = v * w
            else:
                if I.branch(w == 0): raise Undefined()
                v = v / w
        return v
    def expr():
        v = term()
        while isinstance(peek(), str) and peek() in ('+', '-'):
            o = nxt(); w = term()
            v = v + w if o == '+' else v - w
        return v
    try: return expr()
    except Undefined: return None

def ref_eval(vals, ops, par):
    """exact integer evaluation with the standard table: ^ right assoc tightest, then * /, then + - (left)"""
    toks = []
    for i, v in enumerate(vals):
        if par and i == par - 1: toks.append('(')
        toks.append(v)
        if par and i == par: toks.append(')')
        if i < len(ops): toks.append(ops[i])
    pos = [0]
    class Undefined(Exception): pass
    def peek(): return toks[pos[0]] if pos[0] < len(toks) else None
    def nxt(): t = toks[pos[0]]; pos[0] += 1; return t
    def primary():
        t = nxt()
        if t == '(':
            v = expr(); nxt(); return v
        return t
    def power():
        base = primary()
        if peek() == '^':
            nxt(); e = power()
            if e < 0 or e > 70: raise Undefined()
            r = base ** e
            if not (-(1 << 63) <= r < (1 << 63)): raise Undefined()
            return r
        return base
    def term():
        v = power()
        while peek() in ('*', '/'):
            o = nxt(); w = power()
            if o == '*': v = wrap(v * w, 64, True)
            else:
                if w == 0: raise Undefined()
                q = abs(v) // abs(w); v = wrap(-q if (v < 0) != (w < 0) else q, 64, True)
        return v
    def expr():
        v = term()
        while peek() in ('+', '-'):
            o = nxt(); w = term()
            v = wrap(v + w if o == '+' else v - w, 64, True)
        return v
    try: return expr()
    except Undefined: return None

def ref_line(line):
    """reference for the directed integer cases (None: float or undefined-by-statement cases)"""
    if '.' in line or 'e' in line: return None
    import re
    toks = re.findall(r'-?\d+|[-+*/^()]', line.replace(' ', ''))
    # re-tokenise: a '-' directly after an operator or '(' or at the start belongs to the number
    src = line.replace(' ', ''); out = []; i = 0
    while i < len(src):
        c = src[i]
        if c.isdigit() or (c in '+-' and (not out or out[-1] in list('+-*/^(')) and i + 1 < len(src) and src[i + 1].isdigit()):
            j = i + 1
            while j < len(src) and src[j].isdigit(): j += 1
            v = int(src[i:j])
            if not (-(1 << 63) <= v < (1 << 63)): return None
            out.append(v); i = j
        else: out.append(c); i += 1
    vals = [t for t in out if isinstance(t, int)]; ops = [t for t in out if t in list('+-*/^')]
    if '(' in out or len(vals) != len(ops) + 1: return None
    r = ref_eval(vals, ops, 0)
    return None if r is None else str(r)

def run_instance(prog, inst, tier, seed, deadline):
    b = BOUNDS[tier]
    nat = nativemod.Native(timeout=8)
    S = explore.chars_to_str
    try:
        def line_of(l, I, model=None):
            if inst['kind'] == 'kernel64':
                inp = l.inputs if model is None else explore.model_inputs(I.ctx, model)
                return '%d %s %d' % (inp['lhs'], inst['op'], inp['rhs'])
            return S(model or l.model, I.h_line)
        def native(line):
            try: return nat.call('run_calculator', line)
            except nativemod.NativeHang: return {'hang': True}
        def on_ok(l, I):
            line = line_of(l, I)
            r = native(line)
            if inst['kind'] == 'kernel64':
                if 'Ok' not in r: return ('mismatch', dict(line=line, symbolic='no panic', native=r))
                return ('validated', 1)
            if inst['kind'] == 'prec':
                got = conc(l.model, I.h_got)
                if got >= (1 << 63): got -= (1 << 64)
                if r.get('Ok') != str(got): return ('mismatch', dict(line=line, symbolic=got, native=r))
                return ('validated', 1)
            exp = conc(l.model, l.payload['result']) if isinstance(l.payload, dict) else None
            if inst['kind'] == 'classify':
                res = l.payload['result']
                exp = {'Ok': S(l.model, I.str_of(res.f[0]))} if res.tag == 'Ok' else {'Err': 'syntax error'}
                if r != exp: return ('mismatch', dict(line=line, symbolic=exp, native=r))
                return ('validated', 1)
            if 'Ok' in r and exp is not None and r['Ok'] != exp: return ('mismatch', dict(line=line, symbolic=exp, native=r))
            if 'Ok' not in r and exp is not None: return ('mismatch', dict(line=line, symbolic=exp, native=r))
            return ('validated', 1)
        def on_violation(l, I):
            line = line_of(l, I, l.model)
            r = native(line)
            rec = dict(label=l.msg, kind=inst['kind'], line=line, native=r, detail=l.payload)
            if l.msg == 'not-classified-as-arithmetic':
                rec['key'] = 'not-arithmetic:' + ('trailing-operator' if line.rstrip()[-1:] in OPS + '(' else 'other:' + line)
            elif l.msg == 'value':
                hw = getattr(I, 'h_want', None)
                if inst['kind'] == 'prec':
                    wv = conc(l.model, hw); wv = wv - (1 << 64) if wv >= (1 << 63) else wv
                    rec['want'] = str(wv)
                else:
                    rec['want'] = S(l.model, hw) if isinstance(hw, list) else hw
                rec['key'] = 'value:%s' % (inst.get('op') or ''.join(inst.get('ops', [])) or inst['name'])
            else:
                rec['key'] = '%s:%s' % (l.msg, inst['name'])
            return rec
        def on_panic(l, I):
            if l.status == 'exit': return None
            line = line_of(l, I)
            r = native(line)
            m = str(l.msg)
            site = 'literal-out-of-range' if 'unwrap' in m else 'pow-overflow' if 'multiply' in m else 'overflow' if 'attempt to' in m else m[:40]
            return dict(label='crash', kind=inst['kind'], line=line, native=r, key='crash:' + site, msg=m)
        return hsupport.run_paths(prog, body(inst, b), deadline, on_ok=on_ok, on_violation=on_violation, on_panic=on_panic, step_budget=600_000,
                                 prefix=inst.get('_prefix'), split_depth=inst.get('_split'))
    finally:
        nat.close()

def replay(v):
    nat = nativemod.Native(timeout=8)
    try:
        try: r = nat.call('run_calculator', v['line'])
        except nativemod.NativeHang: return dict(witness=v['line'], native='hang', reproduced=True)
        arith = nat.call('is_arithmetic', v['line'])
        if v['label'] == 'crash': rep = isinstance(r, dict) and ('panic' in r or 'crash' in r)
        elif v['label'] == 'not-classified-as-arithmetic': rep = arith is False
        elif v['label'] == 'value': rep = r.get('Ok') != v.get('want')
        else: rep = 'Ok' not in r
        return dict(witness=v['line'], is_arithmetic=arith, native=r, expected=v.get('want'), reproduced=rep)
    finally:
        nat.close()

def replay_file(path):
    d = json.load(open(path)); r = replay(d['violation']); print(json.dumps(r, indent=1))
    if r['reproduced']:
        print('VIOLATION property=%s replay=%s' % (PROPERTY, path)); return 1
    return 0

def finish(pid, tier, seed, results, known, wall, th, log):
    agg = hsupport.merge(results)
    hsupport.report_issues(agg, log)
    code, lines, new, nknown = hsupport.triage(pid, agg, known, lambda v: v['key'], replay, log)
    for ln in lines: print(ln)
    extra = dict(bounds=BOUNDS[tier], repo_tree=th, violating_paths=len(agg['violations']), new_violations=new, known_findings_reproduced=nknown)
    hsupport.write_evidence(pid, tier, seed, agg, wall, extra, ASSUMPTIONS, new)
    log('paths=%d queries=%d solver=%.1fs validated=%d violations(paths)=%d new=%d known=%d -> exit %d' % (
        agg['paths'], agg['queries'], agg['solver_s'], agg['validated'], len(agg['violations']), new, nknown, code))
    return code
