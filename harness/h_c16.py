"""C16 - a line means the same at the prompt, with -c, in a script, function or source.

Encoded (MIR): scripting::expand_args = parse_line -> expand_args_in_tokens -> tokens_to_line (tools::wrap_sep_string),
which every script / function / sourced line passes through before run_command_line, followed by the same planning
as C01 (line_to_cmds, CommandLine::from_line); and the interactive pre-passes shell::trim_multiline_prompts and
tools::extend_bangbang.  Symbolic: the argument characters of C01's line shapes (three quoting styles, positions).
Oracle: the plan (argv texts, redirections, background flag, list structure) of expand_args(l) equals the plan of l;
the interactive pre-passes are the identity on lines without `!!` and without a newline."""
import json, os, shutil, subprocess, tempfile
import z3
import hsupport, hlib, explore, models_env, native as nativemod
from engine import (lit, Ref, Agg, RString, RVec, Slice, is_sym, str_eq, ch_eq, b_and, state_sig)
from explore import expect, conc, Violation
import linegen as lg
import h_c01

PROPERTY = 'C16'
HELPERS = os.path.join(hsupport.VERIF, 'helpers/bin')
CICADA = os.path.join(hsupport.VERIF, 'build/bin/debug/cicada')
BUDGET = {'quick': 900, 'thorough': 1500}
BOUNDS = {'quick': dict(max_args=2, max_chars=2, pos_chars=1), 'thorough': dict(max_args=2, max_chars=2, pos_chars=2)}
ASSUMPTIONS = [
    'bounded: C01\'s line shapes with <= max_args arguments and <= max_chars symbolic characters in total (the pass runs twice per line, hence one character less than C01)',
    'lines carry no positional parameters ($1, $@ ...): script arguments are fixed to ["script"]',
    'stubs as C01 (env: HOME/PATH only; glob and command substitution answer adversarially but identically for identical questions in the two runs)',
    'main.rs / run_script wiring (reading the file, function lookup) is exercised only by the binary replay (script file vs -c)',
]

def instances(tier, seed):
    b = BOUNDS[tier]
    out = []
    for styles, lens in lg.shapes(b['max_args'], b['max_chars']):
        total = sum(lens)
        for pos in ('end', 'pipe', 'semi', 'and'):
            if pos != 'end' and total > b['pos_chars']: continue
            out.append(dict(name='%s/%s/%s' % (styles or '-', ','.join(map(str, lens)) or '-', pos), styles=styles, lens=lens, pos=pos))
    for i in out:
        if sum(i['lens']) >= 2: i['_split'] = 5
    out.sort(key=lambda i: -sum(i['lens']))
    return out

def install_stubs(I):
    h_c01.install_stubs(I)
    p = I.prog
    memo = {}
    g0 = I.env.glob_handler
    def glob_memo(I_, pat):
        k = ('g', repr(state_sig(tuple(pat))))
        if k not in memo: memo[k] = g0(I_, pat)
        return memo[k]
    I.env.glob_handler = glob_memo
    r0 = I.stubs['run_pipeline']
    def cap_memo(I_, a, callee):
        cl = I.deref(a[1])
        k = ('c', repr(state_sig(I.str_of(hlib.field(p, cl, 'line')))))
        if k not in memo: memo[k] = r0(I_, a, callee)
        import engine
        return engine.deep_clone(memo[k])
    I.stubs['run_pipeline'] = cap_memo

def plan_line(I, line):
    """list structure + plan per segment of a full line, as run_command_line would process it"""
    segv = I.call_fn('line_to_cmds', [line])
    segs = [I.str_of(x) for x in I.list_of(segv)]
    out = []
    for s in segs:
        txt = ''.join(chr(c) for c in s) if all(not is_sym(c) for c in s) else None
        if txt in (';', '&&', '||'):
            out.append(('op', txt)); continue
        cell = [hlib.mk_shell(I)]
        r = I.call_fn('types::CommandLine::from_line', [s, Ref(cell, 0)])
        if r.tag != 'Ok': out.append(('err', I.str_of(r.f[0])))
        else: out.append(('plan', hlib.plan_of(I, r.f[0])))
    return out

def plans_equal(a, b):
    """conjunction of conditions for equality of two planned lines (tags of tokens are not part of the meaning)"""
    if len(a) != len(b): return False
    conds = []
    for x, y in zip(a, b):
        if x[0] != y[0]: return False
        if x[0] == 'op':
            if x[1] != y[1]: return False
        elif x[0] == 'err':
            pass
        else:
            p, q = x[1], y[1]
            if len(p['commands']) != len(q['commands']): return False
            if p['background'] is not q['background']: return False
            if len(p['envs']) != len(q['envs']): return False
            for c, d in zip(p['commands'], q['commands']):
                if len(c['tokens']) != len(d['tokens']) or len(c['redirects_to']) != len(d['redirects_to']): return False
                if (c['redirect_from'] is None) != (d['redirect_from'] is None): return False
                for t, u in zip(c['tokens'], d['tokens']): conds.append(str_eq(tuple(t[1]), tuple(u[1])))
                for r, s in zip(c['redirects_to'], d['redirects_to']):
                    for e, f in zip(r, s): conds.append(str_eq(tuple(e), tuple(f)))
                if c['redirect_from'] is not None:
                    for e, f in zip(c['redirect_from'], d['redirect_from']): conds.append(str_eq(tuple(e), tuple(f)))
    return b_and(*conds)

def body(inst):
    def h(I):
        install_stubs(I)
        line, args = h_c01.build_line(I, inst)
        I.h_line = line; I.h_args = args
        sargs = RVec([RString(lit('script'))])
        l2 = I.call_fn('scripting::expand_args', [line, Slice(sargs.v, 0, 1)])
        l2 = I.str_of(l2)
        I.h_line2 = l2
        p1 = plan_line(I, line)
        p2 = plan_line(I, l2)
        I.h_p1 = p1; I.h_p2 = p2
        eq = plans_equal(p1, p2)
        found = []
        syms = [c for a in args for c in a if is_sym(c)]
        for _ in range(5):
            m = I.ctx.violates(eq)
            if m is None: break
            found.append(('script-path-differs', m))
            if not syms: break
            try: I.ctx.assume(z3.Or(*[lg.class_id(c) != m.eval(lg.class_id(c), model_completion=True) for c in syms]))
            except Exception: break
        if found: raise Violation('script-path-differs', found[0][1], detail=found)
        # interactive pre-passes: identity on lines without `!!` (and without newline, which sym chars exclude)
        t = I.str_of(I.call_fn('trim_multiline_prompts', [line]))
        expect(I, str_eq(tuple(t), tuple(line)), 'trim_multiline_prompts-not-identity', None)
        return dict(rerendered=l2)
    return h

def native_plans(nat, line):
    """(plan of l, plan of expand_args(l)) with the native functions"""
    l2 = nat.call('expand_args', line, 'script')
    def plan(l):
        segs = nat.call('line_to_cmds', l)
        if isinstance(segs, dict): return ['crash']
        out = []
        for s in segs:
            if s in (';', '&&', '||'): out.append(['op', s]); continue
            r = nat.call('from_line', s)
            if 'Ok' in r:
                cmds, envs, bg = r['Ok']
                out.append(['plan', [[[t[1] for t in c[0]], c[1], c[2]] for c in cmds], envs, bg])
            elif 'Err' in r: out.append(['err'])
            else: out.append(['crash'])
        return out
    if isinstance(l2, dict): return plan(line), ['crash'], None
    return plan(line), plan(l2), l2

def concrete_differs(ne, line):
    d = tempfile.mkdtemp(prefix='cicada-verif-c16-')
    try:
        h_c01.make_files(d, list(h_c01.BASE_FILES) + h_c01.xfiles(line.split()))
        ne.nat.call('cd', d)
        try:
            a, b, l2 = native_plans(ne.nat, line)
        except nativemod.NativeHang:
            return 'hang', None
        return (None if a == b else 'differs'), l2
    finally:
        shutil.rmtree(d, ignore_errors=True)

def minimize(ne, styles, args, pos):
    args = [list(a) for a in args]
    cache = {}
    def bad(av):
        ln = h_c01.render(styles, [''.join(x) for x in av], pos)
        if ln not in cache: cache[ln] = concrete_differs(ne, ln)[0]
        return cache[ln]
    if bad(args) is None: return None, [''.join(a) for a in args]
    for i in range(len(args)):
        for j in range(len(args[i])):
            if args[i][j] == 'a': continue
            old = args[i][j]; args[i][j] = 'a'
            if bad(args) is None: args[i][j] = old
    # one key per quoting style whose characters are needed for the difference (root cause: tokens_to_line cannot
    # re-render that style faithfully)
    st_needed = sorted(set(st for st, a in zip(styles, args) if any(ch != 'a' for ch in a)))
    return 'rerender:' + (''.join(st_needed) or 'plain'), [''.join(a) for a in args]

def run_instance(prog, inst, tier, seed, deadline):
    ne = h_c01.NativeEnv()
    shape_cache = {}
    S = explore.chars_to_str
    try:
        def args_of(inputs):
            return [''.join(chr(inputs['a%d_%d' % (ai, i)]) for i in range(n)) for ai, n in enumerate(inst['lens'])]
        def on_ok(l, I):
            if I.adversarial or I.env.pid is not None: return None
            line = S(l.model, I.h_line)
            try: l2 = ne.nat_empty.call('expand_args', line, 'script')
            except nativemod.NativeHang: return ('mismatch', dict(line=line, native='hang'))
            exp = S(l.model, I.h_line2)
            if l2 != exp: return ('mismatch', dict(line=line, symbolic=exp, native=l2))
            return ('validated', 1)
        def on_violation(l, I):
            recs = []
            for label, m in (l.payload or [(l.msg, l.model)]):
                inputs = explore.model_inputs(I.ctx, m)
                args = args_of(inputs)
                shape = tuple(tuple(lg.class_name(ord(ch)) for ch in a) for a in args)
                if shape in shape_cache: key, margs = shape_cache[shape]
                else:
                    key, margs = minimize(ne, inst['styles'], args, inst['pos'])
                    if key: shape_cache[shape] = (key, margs)
                line = h_c01.render(inst['styles'], args, inst['pos'])
                recs.append(dict(label=label, line=line, args=args, styles=inst['styles'], pos=inst['pos'], min_args=margs,
                                 rerendered=S(m, I.h_line2), key=key or 'unreproduced:%s' % inst['name']))
            first = recs[0]; first['more'] = recs[1:]
            return first
        def on_panic(l, I):
            args = args_of(l.inputs)
            return dict(label='crash', line=h_c01.render(inst['styles'], args, inst['pos']), args=args, styles=inst['styles'], pos=inst['pos'],
                        key='crash:' + str(l.msg)[:40], min_args=args)
        res = hsupport.run_paths(prog, body(inst), deadline, on_ok=on_ok, on_violation=on_violation, on_panic=on_panic, step_budget=600_000,
                                 prefix=inst.get('_prefix'), split_depth=inst.get('_split'))
        flat = []
        for v in res['violations']:
            more = v.pop('more', []); flat.append(v); flat.extend(more)
        res['violations'] = flat
        return res
    finally:
        ne.close()

def binary_compare(line):
    """the real thing: `cicada -c LINE` versus a script file containing LINE"""
    d = tempfile.mkdtemp(prefix='cicada-verif-c16-')
    try:
        res = []
        for mode in ('-c', 'script'):
            wd = os.path.join(d, mode.strip('-')); os.makedirs(wd)
            h_c01.make_files(wd, list(h_c01.BASE_FILES) + h_c01.xfiles(line.split()))
            out = os.path.join(d, mode.strip('-') + '.jsonl')
            env = {'HOME': '/home/u', 'PATH': HELPERS, 'ARGV_OUT': out, 'LANG': 'C.UTF-8'}
            if mode == '-c': cmd = [CICADA, '-c', line]
            else:
                sp = os.path.join(d, 's.sh'); open(sp, 'w').write(line + '\n'); cmd = [CICADA, sp]
            try:
                p = subprocess.run(cmd, cwd=wd, env=env, stdin=subprocess.DEVNULL, stdout=subprocess.PIPE, stderr=subprocess.PIPE, timeout=10)
                rc = p.returncode
            except subprocess.TimeoutExpired:
                rc = 'hang'
            recs = [json.loads(x)['argv'] for x in open(out)] if os.path.exists(out) else []
            recs = [[os.path.basename(r[0])] + r[1:] for r in recs]
            created = sorted(set(os.listdir(wd)) - set(h_c01.BASE_FILES) - set(h_c01.xfiles(line.split())))
            res.append(dict(mode=mode, argv=recs, status=rc, files=created))
        return res
    finally:
        shutil.rmtree(d, ignore_errors=True)

def replay(v):
    for args in ([v.get('min_args')] if v.get('min_args') else []) + [v['args']]:
        line = h_c01.render(v['styles'], args, v['pos'])
        r = binary_compare(line)
        a, b = r
        if (a['argv'], a['status'], a['files']) != (b['argv'], b['status'], b['files']):
            return dict(witness=line, with_c=a, script=b, reproduced=True)
    return dict(witness=line, with_c=a, script=b, reproduced=False)

def replay_file(path):
    d = json.load(open(path))
    r = replay(d['violation'])
    print(json.dumps(r, indent=1, ensure_ascii=False))
    if r['reproduced']:
        print('VIOLATION property=%s replay=%s' % (PROPERTY, path)); return 1
    return 0

def finish(pid, tier, seed, results, known, wall, th, log):
    agg = hsupport.merge(results)
    hsupport.report_issues(agg, log)
    code, lines, new, nknown = hsupport.triage(pid, agg, known, lambda v: v['key'], replay, log, max_replays_per_key=25)
    for ln in lines: print(ln)
    extra = dict(bounds=BOUNDS[tier], repo_tree=th, violating_paths=len(agg['violations']), new_violations=new, known_findings_reproduced=nknown,
                 distinct_violation_keys=len(set(v['key'] for v in agg['violations'])))
    hsupport.write_evidence(pid, tier, seed, agg, wall, extra, ASSUMPTIONS, new)
    log('paths=%d queries=%d solver=%.1fs validated=%d violations(paths)=%d new=%d known=%d -> exit %d' % (
        agg['paths'], agg['queries'], agg['solver_s'], agg['validated'], len(agg['violations']), new, nknown, code))
    return code
