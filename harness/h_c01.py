"""C01 - quoted and escaped arguments reach the program verbatim.

Encoded (from the MIR of /repo): line_to_cmds, CommandLine::from_line = parse_line, do_expansion (alias, home, env,
brace, glob, command substitution, brace range), drain_env_tokens, background detection, split_tokens_by_pipes,
Command::from_tokens, tokens_to_redirections.  argv of stage i is commands[i].tokens[*].1 (core.rs hands exactly
these to execve).  Symbolic: the characters of the arguments.  Oracle: argv == ["prog", a1..ak], one command (two for
the `| cat` position), no background, no redirection, no drained env."""
import itertools, json, os, shutil, subprocess, tempfile, time
import z3
import hsupport, hlib, explore, models_env, native as nativemod
from engine import (lit, Ref, Agg, RString, is_sym, str_eq, ch_eq, b_and, UNIT)
from explore import expect, conc, Violation
import linegen as lg

PROPERTY = 'C01'
HELPERS = os.path.join(hsupport.VERIF, 'helpers/bin')
CICADA = os.path.join(hsupport.VERIF, 'build/bin/debug/cicada')
BUDGET = {'quick': 900, 'thorough': 1500}
BOUNDS = {'quick': dict(max_args=2, max_chars=3, pos_chars=2), 'thorough': dict(max_args=2, max_chars=3, pos_chars=2)}
ASSUMPTIONS = [
    'bounded: argument lists of <= max_args arguments with <= max_chars symbolic characters in total (see coverage.bounds; in the quick tier two-argument lines carry <= 2 symbolic characters); longer texts and more arguments are outside the claim',
    'symbolic characters range over all Unicode scalar values except NUL and newline, minus the characters the quoting style excludes',
    'stub std::env::var: HOME and PATH set, every other name unset; libc::getpid arbitrary',
    'stub glob::glob: returns one path with an arbitrary one-character name (so any globbing of quoted text changes argv)',
    'stub core::run_pipeline (command substitution): returns an arbitrary one-character stdout',
    'library models (String/Vec/HashMap/regex/format!) are trusted; validated per leaf against the native build where no stub was consulted',
    'execve itself and the kernel are outside the claim',
]

def instances(tier, seed):
    b = BOUNDS[tier]
    out = []
    for styles, lens in lg.shapes(b['max_args'], b['max_chars']):
        total = sum(lens)
        if tier == 'quick' and len(styles) >= 2 and total > 2: continue      # quick: 3 symbolic characters only for single-argument lines
        for pos in lg.POSITIONS:
            if pos != 'end' and total > b['pos_chars']: continue
            if pos == 'or' and total > 1: continue
            out.append(dict(name='%s/%s/%s' % (styles or '-', ','.join(map(str, lens)) or '-', pos), styles=styles, lens=lens, pos=pos))
    # largest instances first (better load balance)
    for i in out:
        if sum(i['lens']) >= 3: i['_split'] = 5
    out.sort(key=lambda i: -sum(i['lens']))
    return out

# ---------------------------------------------------------------------------------------------------
def install_stubs(I):
    I.env = models_env.Env(I, {'HOME': '/home/u', 'PATH': HELPERS}, unknown='unset')
    I.adversarial = []
    I.glob_results = []
    def glob_handler(I_, pat):
        # contract of glob::glob: every returned path matches the pattern.  `*` -> one arbitrary character,
        # `?` -> one arbitrary character; a pattern with `[` gets the (always possible) answer "no match".
        I.adversarial.append('glob')
        n = len(I.adversarial)
        # decide the pattern's shape (forks on symbolic characters)
        kinds = []
        for c in pat:
            if hlib.truthy(I, ch_eq(c, 42)): kinds.append('*')
            elif hlib.truthy(I, ch_eq(c, 63)): kinds.append('?')
            elif hlib.truthy(I, ch_eq(c, 91)): kinds.append('[')
            elif hlib.truthy(I, ch_eq(c, 93)): kinds.append(']')
            elif hlib.truthy(I, ch_eq(c, 33)): kinds.append('!')
            elif hlib.truthy(I, ch_eq(c, 47)): kinds.append('/')
            else: kinds.append('c')
        if kinds and kinds[0] == '/': return []      # absolute pattern: answer "no such file" (always possible)
        # a `/` after a wildcard asks for directories; what the glob crate returns for those (trailing slash or not) is
        # not modelled: answer "no such directory" (always possible)
        seen_wild = False
        for k_ in kinds:
            if k_ in '*?': seen_wild = True
            elif k_ == '/' and seen_wild: return []
        # glob::Pattern::new errors: `***`, `**` not forming a whole component, unclosed `[`
        i = 0; n_ = len(kinds)
        while i < n_:
            if kinds[i] == '*':
                j = i
                while j < n_ and kinds[j] == '*': j += 1
                if j - i > 2: return None
                if j - i == 2:
                    if (i > 0 and kinds[i - 1] != '/') or (j < n_ and kinds[j] != '/'): return None
                    return []            # recursive wildcard: answer "no match"
                i = j; continue
            if kinds[i] == '[':
                j = i + 1
                if j < n_ and kinds[j] == '!': j += 1
                j += 1
                while j < n_ and kinds[j] != ']': j += 1
                if j >= n_: return None
                return []                # valid character class: answer "no match"
            i += 1
        name = []
        for i, (c, k) in enumerate(zip(pat, kinds)):
            if k in '*?':
                name.append(I.sym_char('glob%d_%d' % (n, i), exclude='/.'))
            else:
                name.append(c)
        I.glob_results.append(name)
        return [tuple(name)]
    I.env.glob_handler = glob_handler
    p = I.prog
    def run_pipeline_stub(I_, a, callee):
        I.adversarial.append('capture')
        n = len(I.adversarial)
        cr = hlib.mk_struct(p, 'CommandResult', gid=0, status=0, stdout=RString([I.sym_char('capout%d' % n)]), stderr=RString())
        return Agg(None, [False, cr])
    I.stubs['run_pipeline'] = run_pipeline_stub
    orig_getpid = None

def build_line(I, inst):
    args = []
    text = list(lit('prog'))
    for ai, (st, n) in enumerate(zip(inst['styles'], inst['lens'])):
        chars = lg.sym_arg(I, 'a%d' % ai, st, n)
        args.append(chars)
        text += [32] + lg.render_arg(I, st, chars)
    text += list(lit(lg.POSITIONS[inst['pos']]))
    return tuple(text), args

def plan_conditions(I, inst, args, segs, r):
    """list of (label, condition) the property demands"""
    conds = []
    pos = inst['pos']
    if pos in ('semi', 'and', 'or'):
        op = {'semi': ';', 'and': '&&', 'or': '||'}[pos]
        ok = len(segs) == 3 and str_eq(segs[1], lit(op)) is True and str_eq(segs[2], lit('true')) is True
        conds.append(('list-split', ok))
        if not ok: return conds, None
    if r.tag != 'Ok':
        conds.append(('rejected', False)); return conds, None
    plan = hlib.plan_of(I, r.f[0])
    ncmd = 2 if pos == 'pipe' else 1
    conds.append(('command-count', len(plan['commands']) == ncmd))
    if len(plan['commands']) != ncmd: return conds, plan
    conds.append(('background', plan['background'] is False))
    conds.append(('env-drained', len(plan['envs']) == 0))
    for c in plan['commands']:
        conds.append(('redirect-to', len(c['redirects_to']) == 0))
        conds.append(('redirect-from', c['redirect_from'] is None))
    toks = plan['commands'][0]['tokens']
    want = [lit('prog')] + [tuple(a) for a in args]
    conds.append(('argc', len(toks) == len(want)))
    if len(toks) == len(want):
        for i, (t, w) in enumerate(zip(toks, want)):
            conds.append(('argv[%d]' % i, str_eq(t[1], w)))
    if pos == 'pipe':
        t2 = plan['commands'][1]['tokens']
        conds.append(('pipe-rhs', len(t2) == 1 and str_eq(t2[0][1], lit('cat')) is True))
    return conds, plan

def body(inst):
    def h(I):
        install_stubs(I)
        line, args = build_line(I, inst)
        I.h_line = line; I.h_args = args
        if inst['pos'] in ('semi', 'and', 'or'):
            segv = I.call_fn('line_to_cmds', [line])
            segs = [I.str_of(x) for x in I.list_of(segv)]
            first = segs[0] if segs else ()
        else:
            segs = None; first = line
        cell = [hlib.mk_shell(I)]
        r = I.call_fn('types::CommandLine::from_line', [first, Ref(cell, 0)])
        conds, plan = plan_conditions(I, inst, args, segs, r)
        I.h_plan = plan if plan is not None else ({'Err': I.str_of(r.f[0])} if r.tag == 'Err' else {'segs': segs})
        # all violations of this path that differ in their abstract shape (so a known finding cannot mask a new one)
        found = []
        allc = b_and(*[c for _, c in conds])
        syms = [c for a in args for c in a if is_sym(c)]
        for _ in range(6):
            m = I.ctx.violates(allc)
            if m is None: break
            label = None
            for lb, c in conds:
                if c is False or (c is not True and z3.is_false(m.eval(c, model_completion=True))):
                    label = lb; break
            found.append((label, m))
            if not syms: break
            block = z3.Or(*[lg.class_id(c) != m.eval(lg.class_id(c), model_completion=True) for c in syms])
            try:
                I.ctx.assume(block)
            except Exception:
                break
        if found:
            raise Violation(found[0][0], found[0][1], detail=found)
        return I.h_plan
    return h

# ---------------------------------------------------------------------------------------------------
# native side
class NativeEnv:
    """scratch directory + native tool with the environment the symbolic stubs describe"""
    def __init__(self):
        self.dir = tempfile.mkdtemp(prefix='cicada-verif-')
        for f in BASE_FILES + ('.hid',):
            open(os.path.join(self.dir, f), 'w').close()
        self.envd = {'HOME': '/home/u', 'PATH': HELPERS, 'LANG': 'C.UTF-8'}
        self.nat = nativemod.Native(cwd=self.dir, env=self.envd, timeout=5.0)
        self.empty = tempfile.mkdtemp(prefix='cicada-verif-empty-')
        self.nat_empty = nativemod.Native(cwd=self.empty, env=self.envd, timeout=5.0)
        self.cache = {}
    def touch(self, files):
        make_files(self.dir, files)
        if files: self.cache.clear()
    def close(self):
        self.nat.close(); self.nat_empty.close()
        shutil.rmtree(self.dir, ignore_errors=True); shutil.rmtree(self.empty, ignore_errors=True)

BASE_FILES = ('f1', 'f2')
def ok_filename(f):
    parts = f.split('/')
    return bool(f) and not f.startswith('/') and '..' not in parts and '.' not in parts and '\0' not in f and '' not in parts[:-1]

def make_files(d, files):
    for f in files:
        if not ok_filename(f): continue
        try:
            p = os.path.join(d, f)
            if f.endswith('/'): os.makedirs(p, exist_ok=True)
            else:
                os.makedirs(os.path.dirname(p), exist_ok=True)
                if not os.path.isdir(p): open(p, 'a').close()
        except OSError:
            pass

def concrete_check(nat, line, args, pos):
    """the property's conditions evaluated on the native build; returns failing label or None"""
    try:
        if pos in ('semi', 'and', 'or'):
            op = {'semi': ';', 'and': '&&', 'or': '||'}[pos]
            segs = nat.call('line_to_cmds', line)
            if isinstance(segs, dict): return 'crash'
            if not (len(segs) == 3 and segs[1] == op and segs[2] == 'true'): return 'list-split'
            first = segs[0]
        else:
            first = line
        r = nat.call('from_line', first)
    except nativemod.NativeHang:
        return 'hang'
    if 'panic' in r or 'crash' in r: return 'crash'
    if 'Err' in r: return 'rejected'
    cmds, envs, bg = r['Ok']
    ncmd = 2 if pos == 'pipe' else 1
    if len(cmds) != ncmd: return 'command-count'
    if bg: return 'background'
    if envs: return 'env-drained'
    for c in cmds:
        if c[1]: return 'redirect-to'
        if c[2] is not None: return 'redirect-from'
    toks = [t[1] for t in cmds[0][0]]
    want = ['prog'] + args
    if len(toks) != len(want): return 'argc'
    for i, (t, w) in enumerate(zip(toks, want)):
        if t != w: return 'argv[%d]' % i
    if pos == 'pipe' and [t[1] for t in cmds[1][0]] != ['cat']: return 'pipe-rhs'
    return None

def render(styles, args, pos):
    return 'prog' + ''.join(' ' + lg.render_arg_concrete(s, a) for s, a in zip(styles, args)) + lg.POSITIONS[pos]

HARD = ('hang', 'crash')
def xfiles(args):
    """adversarial file system: one entry matching each argument read as a glob pattern"""
    return [''.join(('xyzw'[i % 4]) if ch in '*?' else ch for ch in x) for i, x in enumerate(args) if any(ch in '*?' for ch in x)]
def minimize(ne, styles, args, pos):
    """replace every character that is not needed for the violation by 'a' (delta debugging on the native build, in a
    fresh directory holding f1, f2 and, per candidate, one file matching each argument read as a glob pattern).
    `hang` and `crash` are kept as failure modes of their own; all other labels count as "wrong plan"."""
    args = [list(a) for a in args]
    cache = {}
    def bad(av):
        txt = [''.join(x) for x in av]
        ln = render(styles, txt, pos)
        if ln not in cache:
            d = tempfile.mkdtemp(prefix='cicada-verif-min-')
            try:
                make_files(d, list(BASE_FILES) + xfiles(txt))
                ne.nat.call('cd', d)
                cache[ln] = concrete_check(ne.nat, ln, txt, pos)
            finally:
                shutil.rmtree(d, ignore_errors=True)
        return cache[ln]
    def kind_of(lb):
        if lb is None: return None
        return lb if lb in HARD else 'soft'
    try:
        label = bad(args)
        if label is None: return None, [''.join(a) for a in args], None
        k0 = kind_of(label)
        for i in range(len(args)):
            for j in range(len(args[i])):
                if args[i][j] == 'a': continue
                old = args[i][j]; args[i][j] = 'a'
                if kind_of(bad(args)) != k0: args[i][j] = old
        label = bad(args)
    finally:
        try: ne.nat.call('cd', ne.dir)
        except Exception: pass
    kind = 'argv' if label.startswith(('argv', 'argc')) else label
    parts = []
    for i, (st, a) in enumerate(zip(styles, args)):
        ess = sorted(set(lg.class_name(ord(ch)) for ch in a if ch != 'a'))
        if ess or (not a and len(args) == 1):
            role = 'last' if i == len(args) - 1 else 'inner'
            parts.append('%s-%s{%s}' % (role, st, ''.join(ess)))
    key = '%s:%s' % (kind, ';'.join(parts))
    return key, [''.join(a) for a in args], label

def run_instance(prog, inst, tier, seed, deadline):
    ne = NativeEnv()
    shape_cache = {}
    try:
        def args_of(l):
            return [''.join(chr(l.inputs['a%d_%d' % (ai, i)]) for i in range(n)) for ai, n in enumerate(inst['lens'])]
        def on_ok(l, I):
            if I.adversarial or I.env.pid is not None: return None
            args = args_of(l)
            line = explore.chars_to_str(l.model, I.h_line)
            if inst['pos'] in ('semi', 'and', 'or'): return None
            exp = conc(l.model, I.h_plan)
            try: got = ne.nat_empty.call('from_line', line)
            except nativemod.NativeHang: return ('mismatch', {'line': line, 'native': 'hang'})
            if 'Ok' in got:
                cmds, envs, bg = got['Ok']
                gotn = dict(commands=[dict(tokens=[list(t) for t in c[0]], redirects_to=[list(x) for x in c[1]], redirect_from=(list(c[2]) if c[2] else None)) for c in cmds],
                            envs=[list(e) for e in envs], background=bg)
                expn = exp if isinstance(exp, dict) and 'commands' in exp else exp
                if isinstance(expn, dict) and 'commands' in expn:
                    expn = dict(commands=[dict(tokens=[list(t) for t in c['tokens']], redirects_to=[list(x) for x in c['redirects_to']], redirect_from=(list(c['redirect_from']) if c['redirect_from'] else None)) for c in expn['commands']],
                                envs=sorted([list(e) for e in expn['envs']]), background=expn['background'])
                if gotn != expn: return ('mismatch', {'line': line, 'symbolic': expn, 'native': gotn})
            elif 'Err' in got:
                if not (isinstance(exp, dict) and exp.get('Err') == got['Err']):
                    return ('mismatch', {'line': line, 'symbolic': exp, 'native': got})
            else:
                return ('mismatch', {'line': line, 'symbolic': exp, 'native': got})
            return ('validated', 1)
        def on_violation(l, I):
            recs = []
            for label, m in l.payload:
                inputs = explore.model_inputs(I.ctx, m)
                args = [''.join(chr(inputs['a%d_%d' % (ai, i)]) for i in range(n)) for ai, n in enumerate(inst['lens'])]
                files = [f for f in (explore.chars_to_str(m, g) for g in I.glob_results) if ok_filename(f)]
                shape = (label, tuple(tuple(lg.class_name(ord(ch)) for ch in a) for a in args))
                if shape in shape_cache:
                    key, margs, nlabel = shape_cache[shape]
                else:
                    key, margs, nlabel = minimize(ne, inst['styles'], args, inst['pos'])
                    if key is not None: shape_cache[shape] = (key, margs, nlabel)
                line = render(inst['styles'], args, inst['pos'])
                recs.append(dict(label=label, line=line, args=args, styles=inst['styles'], pos=inst['pos'],
                                 observed=_plan_json(m, I.h_plan), files=files, key=key or ('unreproduced:%s:%s' % (inst['name'], label)),
                                 min_args=margs, native_label=nlabel))
            # run_paths stores one record per leaf; pack the rest
            first = recs[0]; first['more'] = recs[1:]
            return first
        def on_panic(l, I):
            args = args_of(l)
            line = render(inst['styles'], args, inst['pos'])
            key, margs, nlabel = minimize(ne, inst['styles'], args, inst['pos'])
            return dict(label='crash:' + str(l.msg), line=line, args=args, styles=inst['styles'], pos=inst['pos'],
                        key=key or ('unreproduced-crash:%s' % inst['name']), min_args=margs, native_label=nlabel)
        def on_budget(l, I):
            # step budget exhausted: a hang candidate; it counts only if the native build hangs too
            if l.inputs is None: return None
            args = args_of(l)
            line = render(inst['styles'], args, inst['pos'])
            if concrete_check(ne.nat, line, args, inst['pos']) != 'hang': return None
            key, margs, nlabel = minimize(ne, inst['styles'], args, inst['pos'])
            return dict(label='hang', line=line, args=args, styles=inst['styles'], pos=inst['pos'], key=key, min_args=margs, native_label=nlabel)
        res = hsupport.run_paths(prog, body(inst), deadline, on_ok=on_ok, on_violation=on_violation, on_panic=on_panic,
                                 on_budget=on_budget, step_budget=400_000,
                                 prefix=inst.get('_prefix'), split_depth=inst.get('_split'))
        # unpack multi-violation leaves
        flat = []
        for v in res['violations']:
            more = v.pop('more', [])
            flat.append(v); flat.extend(more)
        res['violations'] = flat
        return res
    finally:
        ne.close()

def _plan_json(m, plan):
    try: return conc(m, plan)
    except Exception as e: return repr(e)

# ---------------------------------------------------------------------------------------------------
def binary_replay(styles, args, pos, files=()):
    """run the real binary: `cicada -c <line>` with argv-dumping helpers first on PATH, in a scratch directory"""
    d = tempfile.mkdtemp(prefix='cicada-verif-replay-')
    try:
        make_files(d, list(BASE_FILES) + xfiles(args) + list(files))
        base = set(os.listdir(d))
        out = os.path.join(d, '.argv.jsonl')
        line = render(styles, args, pos)
        env = {'HOME': '/home/u', 'PATH': HELPERS, 'ARGV_OUT': out, 'LANG': 'C.UTF-8'}
        try:
            p = subprocess.run([CICADA, '-c', line], cwd=d, env=env, stdin=subprocess.DEVNULL,
                               stdout=subprocess.PIPE, stderr=subprocess.PIPE, timeout=10)
            rc = p.returncode; err = p.stderr.decode('utf-8', 'replace')[-300:]
        except subprocess.TimeoutExpired:
            return dict(line=line, hang=True, reproduced=True, witness=line)
        time.sleep(0.05)
        recs = []
        if os.path.exists(out):
            recs = [json.loads(x) for x in open(out) if x.strip()]
        progs = [r for r in recs if r['name'] == 'prog']
        want = ['prog'] + list(args)
        got = [[os.path.basename(r['argv'][0])] + r['argv'][1:] for r in progs]
        created = sorted(set(os.listdir(d)) - base - {'.argv.jsonl'})
        ok = (got == [want]) and not created
        return dict(line=line, expected_argv=want, observed_argv=got, files_created=created, status=rc, stderr=err,
                    reproduced=not ok, witness=line)
    finally:
        shutil.rmtree(d, ignore_errors=True)

def replay(v):
    args = v.get('min_args') or v['args']
    r = binary_replay(v['styles'], args, v['pos'], v.get('files', ()))
    if not r.get('reproduced') and args != v['args']:
        r = binary_replay(v['styles'], v['args'], v['pos'], v.get('files', ()))
    return r

def replay_file(path):
    d = json.load(open(path))
    r = replay(d['violation'])
    print(json.dumps(r, indent=1, ensure_ascii=False))
    if r.get('reproduced'):
        print('VIOLATION property=%s replay=%s' % (PROPERTY, path)); return 1
    return 0

def finish(pid, tier, seed, results, known, wall, th, log):
    agg = hsupport.merge(results)
    hsupport.report_issues(agg, log)
    code, lines, new, nknown = hsupport.triage(pid, agg, known, lambda v: v['key'], replay, log)
    for ln in lines: print(ln)
    b = BOUNDS[tier]
    extra = dict(bounds=dict(b, positions=list(lg.POSITIONS), styles='single/double/escaped'), repo_tree=th,
                 violating_paths=len(agg['violations']), distinct_violation_keys=len(set(v['key'] for v in agg['violations'])),
                 known_findings_reproduced=nknown, new_violations=new)
    p = hsupport.write_evidence(pid, tier, seed, agg, wall, extra, ASSUMPTIONS, new)
    log('paths=%d queries=%d solver=%.1fs validated=%d violations(paths)=%d keys=%d new=%d known=%d -> exit %d' % (
        agg['paths'], agg['queries'], agg['solver_s'], agg['validated'], len(agg['violations']), extra['distinct_violation_keys'], new, nknown, code))
    return code

