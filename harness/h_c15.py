"""C15 - script arguments, functions, `source`, exit statuses, exit N, set -e.

Encoded (MIR): scripting::{run_script, run_lines, run_exp*, expand_args, expand_args_in_tokens, expand_args_for_single_token,
is_args_in_token}, execute::{run_command_line, run_proc}, CommandLine::from_line with all expansion passes,
core::try_run_func, Shell::{set_func,get_func}, builtins::{source,exit}::run, set_shell_vars.
core::run_pipeline is replaced by a harness function that calls the REAL try_run_func first and otherwise dispatches on the
first word: `set -e` (flag), `exit` (real builtin), `source` (real builtin -> real run_script on the virtual files),
anything else = external command (argv recorded, symbolic status).  Files are a virtual map path -> text.
Part `token`: expand_args_for_single_token / expand_args_in_tokens on symbolic tokens against a reference substitution."""
import itertools, json, os, shutil, subprocess, tempfile, re
import z3
import hsupport, hlib, explore, models_env
from engine import (lit, Ref, Agg, RString, RVec, Slice, is_sym, str_eq, b_and, OK, ERR, TUP, ProcessExit, Opaque, NONE, SOME)
from explore import expect, conc, Violation

PROPERTY = 'C15'
CICADA = os.path.join(hsupport.VERIF, 'build/bin/debug/cicada')
BUDGET = {'quick': 900, 'thorough': 1500}
BOUNDS = {'quick': dict(arg_len=1, max_args=2, tok_segs=3), 'thorough': dict(arg_len=2, max_args=3, tok_segs=4)}
ASSUMPTIONS = [
    'scenario families are enumerated (positional parameters in commands / conditions / for lists, functions in both header spellings with names containing - and _, status chains, set -e and exit N at every position incl. nested blocks and function bodies, source chains of depth <= 3); the argument texts (<= arg_len characters each, 0..max_args arguments) and every exit status are solver variables',
    'argument characters: arbitrary scalars except those that are shell syntax when written unquoted (white space incl. Unicode White_Space - unquoted results being re-read is C13 -, quotes, $ ` \\ * ? [ ] { } ~ | & ; < > ( ) # ! = , ^ %) for unquoted uses; for "$1" uses only " $ ` \\ are excluded',
    'core::run_pipeline is a harness function (real try_run_func first; `set -e`, `exit`, `source` dispatched to the flag / the real builtins; other commands recorded with a symbolic status); builtin dispatch itself, main.rs and the file system are outside (virtual files); every leaf sample and every violation is re-run through the real binary with status-programmed helper commands',
    'status of an if whose condition fails = status of the condition (the last command executed), as the property states it',
]
PLAIN_EX = " \t\n\r\x0b\x0c\"'$`\\*?[]{}~|&;<>()#!=,^%-+@:./" + "\x85\xa0\u1680\u2000\u2001\u2002\u2003\u2004\u2005\u2006\u2007\u2008\u2009\u200a\u2028\u2029\u202f\u205f\u3000"
DQ_EX = "\"$`\\\n!"

# ---- scenario language --------------------------------------------------------------------------------------
# word = (quote, [parts]); part = ('l', text) | ('a', n, braced) | ('@',) | ('?',) | ('v', name)
def W(*parts, q='p'): return (q, list(parts))
def L(t): return ('l', t)
def A(n, br=False): return ('a', n, br)
ALL = ('@',); ST = ('?',)
def V(n): return ('v', n)

def render_word(w):
    q, parts = w
    s = ''
    for p in parts:
        if p[0] == 'l': s += p[1]
        elif p[0] == 'a': s += ('${%d}' % p[1]) if p[2] else ('$%d' % p[1])
        elif p[0] == '@': s += '$@'
        elif p[0] == '?': s += '$?'
        elif p[0] == 'v': s += '$' + p[1]
    return '"%s"' % s if q == 'd' else s

def render(body, ind=0):
    out = []
    pad = '    ' * ind
    for s in body:
        k = s[0]
        if k in ('cmd', 'call'): out.append(pad + ' '.join([s[1]] + [render_word(w) for w in s[2]]))
        elif k == 'chain': out.append(pad + (' %s ' % s[1]).join(render([c])[0] for c in s[2]))
        elif k == 'if':
            out.append(pad + 'if ' + ' '.join([s[1][1]] + [render_word(w) for w in s[1][2]])); out += render(s[2], ind + 1)
            if len(s) > 3 and s[3] is not None:
                out.append(pad + 'else'); out += render(s[3], ind + 1)
            out.append(pad + 'fi')
        elif k == 'for':
            out.append(pad + 'for %s in %s' % (s[1], ' '.join(render_word(w) for w in s[2]))); out += render(s[3], ind + 1); out.append(pad + 'done')
        elif k == 'def':
            out.append(pad + ('function %s() {' if s[2] == 'paren' else 'function %s {') % s[1]); out += render(s[3], ind + 1); out.append(pad + '}')
        elif k == 'sete': out.append(pad + 'set -e')
        elif k == 'exit': out.append(pad + 'exit %d' % s[1])
        elif k == 'source': out.append(pad + ' '.join(['source', s[1]] + [render_word(w) for w in s[2]]))
        elif k == 'assign': out.append(pad + '%s=%s' % (s[1], s[2]))
    return out

def C(name, *words): return ('cmd', name, list(words))
def CALL(name, *words): return ('call', name, list(words))

def scenarios(tier):
    S = []
    def add(name, files, nargs=(0, 1, 2), argq='p', st_small=False):
        for n in nargs:
            S.append(dict(name='%s/n%d' % (name, n), files=files, nargs=n, argq=argq, st_small=st_small,
                          sym_status=name.split('-')[0] in ('status', 'sete', 'exit') or name in ('source-status', 'source-missing', 'func-nested')))
    # --- positional parameters
    add('pos-cmd', {'main.sh': [C('c1', W(A(0)), W(A(1)), W(A(2))), C('c2', W(A(1, True), L('x')), W(L('a'), A(1)), W(A(1), A(2)))]})
    add('pos-all', {'main.sh': [C('c1', W(ALL)), C('c2', W(L('k')), W(ALL), W(L('z')))]})
    add('pos-quoted', {'main.sh': [C('c1', W(A(1), q='d'), W(L('a '), A(2, True), L(' b'), q='d'), W(ALL, q='d'))]}, argq='d')
    add('pos-test', {'main.sh': [('if', C('t1', W(A(1))), [C('c1', W(A(2)))], [C('c2', W(A(0)))])]})
    add('pos-for-all', {'main.sh': [('for', 'x', [W(ALL)], [C('c3', W(V('x')))])]})
    add('pos-for-mixed', {'main.sh': [('for', 'y', [W(L('k')), W(A(1))], [C('c4', W(V('y')), W(A(1)))])]}, nargs=(0, 1))
    add('pos-missing', {'main.sh': [C('c1', W(A(3)), W(L('m'))), C('c2', W(L('a'), A(4, True), L('b'))), C('c3', W(A(10)), W(L('e')))]}, nargs=(0, 2))
    # --- functions: both spellings, - and _ in names, arity
    fa = ('def', 'f-a', 'paren', [C('c1', W(A(0)), W(A(1)), W(A(2))), C('c2', W(ALL))])
    fb = ('def', 'f_b', 'brace', [C('c3', W(A(1)), W(A(2)))])
    add('func-args', {'main.sh': [fa, fb, CALL('f-a', W(L('p')), W(A(1))), CALL('f_b'), C('c4', W(A(0)), W(A(1)))]}, nargs=(0, 1))
    add('func-arity', {'main.sh': [fa, fb, CALL('f-a'), CALL('f_b', W(L('q')), W(L('r')), W(L('s'))), CALL('f-a', W(L('only')))]}, nargs=(0,))
    add('func-late-def', {'main.sh': [C('c0'), ('def', 'g1', 'paren', [C('c1', W(A(1)))]), CALL('g1', W(L('u'))), ('def', 'g-2_x', 'brace', [C('c2', W(A(1)))]), CALL('g-2_x', W(L('v')))]}, nargs=(0,))
    add('func-nested', {'main.sh': [('def', 'outer', 'paren', [C('c1', W(A(1))), CALL('inner', W(A(1)), W(L('i'))), C('c3', W(A(1)))]), ('def', 'inner', 'brace', [C('c2', W(A(1)), W(A(2)))]), CALL('outer', W(L('o')))]}, nargs=(0,))
    # --- statuses
    add('status-last-cmd', {'main.sh': [C('c1'), C('c2')]}, nargs=(0,))
    add('status-func', {'main.sh': [('def', 'f', 'paren', [C('c1'), C('c2')]), CALL('f'), C('c3', W(ST))]}, nargs=(0,), st_small=True)
    add('status-func-last', {'main.sh': [('def', 'f', 'paren', [C('c1')]), C('c0'), CALL('f')]}, nargs=(0,))
    add('status-func-chain', {'main.sh': [('def', 'f', 'brace', [C('c1')]), ('chain', '&&', [CALL('f'), C('c2')]), ('chain', '||', [CALL('f'), C('c3')])]}, nargs=(0,))
    add('status-if', {'main.sh': [C('c1'), ('if', C('t1'), [C('c2')], None)]}, nargs=(0,))
    add('status-for', {'main.sh': [('for', 'x', [W(L('a')), W(L('b'))], [C('c1', W(V('x')))])]}, nargs=(0,))
    add('status-probe', {'main.sh': [C('c1'), C('c2', W(ST)), ('if', C('t1'), [C('c3', W(ST))], [C('c4', W(ST))])]}, nargs=(0,), st_small=True)
    # --- set -e at every position, nested blocks, function bodies
    for k in range(0, 4):
        body = [C('c1'), C('c2'), C('c3')]; body.insert(k, ('sete',))
        add('sete-pos%d' % k, {'main.sh': body}, nargs=(0,))
    add('sete-if-body', {'main.sh': [('sete',), ('if', C('t1'), [C('c1'), C('c2')], [C('c3'), C('c4')]), C('c5')]}, nargs=(0,))
    add('sete-for-body', {'main.sh': [('sete',), ('for', 'x', [W(L('a')), W(L('b'))], [C('c1', W(V('x'))), C('c2')]), C('c3')]}, nargs=(0,))
    add('sete-cond-fails', {'main.sh': [('sete',), ('if', C('t1'), [C('c1')], None), C('c2'), C('c3')]}, nargs=(0,))
    add('sete-func', {'main.sh': [('def', 'f', 'paren', [C('c1'), C('c2')]), ('sete',), CALL('f'), C('c3')]}, nargs=(0,))
    add('sete-in-func', {'main.sh': [('def', 'f', 'paren', [('sete',), C('c1'), C('c2')]), CALL('f'), C('c3'), C('c4')]}, nargs=(0,))
    add('sete-chain', {'main.sh': [('sete',), ('chain', ';', [C('c1'), C('c2')]), C('c3')]}, nargs=(0,))
    add('sete-source', {'main.sh': [('sete',), ('source', 'lib.sh', []), C('c2'), C('c3')], 'lib.sh': [('def', 'f', 'paren', [C('c9')]), C('c1')]}, nargs=(0,))
    # --- exit N
    for n_ in (0, 3, 255):
        add('exit-top-%d' % n_, {'main.sh': [C('c1'), ('exit', n_), C('c2')]}, nargs=(0,))
    add('exit-if', {'main.sh': [('if', C('t1'), [C('c1'), ('exit', 4), C('c2')], [C('c3')]), C('c4')]}, nargs=(0,))
    add('exit-for', {'main.sh': [('for', 'x', [W(L('a')), W(L('b'))], [C('c1', W(V('x'))), ('exit', 5)]), C('c2')]}, nargs=(0,))
    add('exit-func', {'main.sh': [('def', 'f', 'paren', [C('c1'), ('exit', 6), C('c2')]), CALL('f'), C('c3')]}, nargs=(0,))
    add('exit-source', {'main.sh': [('source', 'lib.sh', []), C('c2')], 'lib.sh': [C('c1'), ('exit', 7), C('c3')]}, nargs=(0,))
    # --- source: variables, functions persist; arguments; status; chains
    add('source-persist', {'main.sh': [('source', 'a.sh', [W(L('q')), W(A(1))]), CALL('g', W(L('z'))), C('c4', W(V('X')), W(A(0)), W(A(1)))],
                           'a.sh': [('assign', 'X', 'one'), ('def', 'g', 'paren', [C('c1', W(A(1)), W(V('X')))]), C('c2', W(A(0)), W(A(1)), W(A(2)))]}, nargs=(0, 1))
    add('source-status', {'main.sh': [('source', 'a.sh', []), C('c2', W(ST)), ('chain', '&&', [('source', 'a.sh', []), C('c3')])], 'a.sh': [C('c1')]}, nargs=(0,), st_small=True)
    add('source-chain3', {'main.sh': [('source', 'a.sh', [W(L('1a'))]), CALL('h3'), CALL('h2'), C('c9', W(V('Y')), W(V('Z')))],
                          'a.sh': [('source', 'b.sh', [W(L('2b'))]), ('def', 'h2', 'brace', [C('c2')]), C('c5', W(A(1)))],
                          'b.sh': [('assign', 'Y', 'why'), ('source', 'c.sh', []), C('c6', W(A(1)))],
                          'c.sh': [('def', 'h3', 'paren', [C('c3')]), ('assign', 'Z', 'zed'), C('c7', W(A(0)))]}, nargs=(0,))
    add('source-missing', {'main.sh': [('source', 'nope.sh', []), C('c1', W(ST))]}, nargs=(0,), st_small=True)
    return S

TOKEN_SEGS = ['lit', '$1', '${1}', '$2', '$@', '${@}', '$0', '$12', '${3}']
def instances(tier, seed):
    out = [dict(s, kind='script') for s in scenarios(tier)]
    for o in out:
        if o['nargs'] >= 2 or o['name'].startswith('pos-quoted'): o['_split'] = 5      # symbolic argument characters through the tokenizer: share the tree
    b = BOUNDS[tier]
    for n in range(1, b['tok_segs'] + 1):
        for segs in itertools.product(TOKEN_SEGS, repeat=n):
            if all(s == 'lit' for s in segs): continue
            if any(a == 'lit' and b_ == 'lit' for a, b_ in zip(segs, segs[1:])): continue
            out.append(dict(name='token/' + '+'.join(segs), kind='token', segs=list(segs)))
    for sep in ("'", '`', '"', ''):
        out.append(dict(name='tokens/sep=%s' % (sep or 'none'), kind='tokens', sep=sep))
    return out

class Exit(Exception):
    def __init__(self, code): self.code = code
class Abort(Exception):
    def __init__(self, status): self.status = status

class Reference:
    """structured semantics of the scenario language over the statuses the implementation drew (same order if the traces agree)"""
    def __init__(self, I, files, statuses, src_status):
        self.I = I; self.files = files; self.statuses = statuses; self.pos = 0
        self.funcs = {}; self.vars = {}; self.sete = False; self.prev = 0; self.trace = []; self.src_status = src_status
    def ext(self, name, argv):
        self.trace.append([lit(name)] + argv)
        st = self.statuses[self.pos] if self.pos < len(self.statuses) else 0
        self.pos += 1
        return st
    def word(self, w, A_):
        q, parts = w
        cur = []; words = None
        for p in parts:
            if p[0] == 'l': cur += list(lit(p[1]))
            elif p[0] == 'a':
                if p[1] < len(A_): cur += list(A_[p[1]])
            elif p[0] == '@':
                if q == 'd' or len(parts) > 1:
                    joined = []
                    for i, a in enumerate(A_[1:]):
                        if i: joined.append(32)
                        joined += list(a)
                    cur += joined
                else:
                    return [tuple(a) for a in A_[1:] if len(a)]
            elif p[0] == '?': cur += list(self.status_chars(self.prev))
            elif p[0] == 'v': cur += list(self.vars.get(p[1], ()))
        if q == 'p' and not cur: return []
        return [tuple(cur)]
    def status_chars(self, st):
        v = self.I.concretize(st) if is_sym(st) else st
        return lit(str(v))
    def words(self, ws, A_):
        out = []
        for w in ws: out += self.word(w, A_)
        return out
    def failed(self, st): return hlib.truthy(self.I, st != 0)
    def simple(self, s, A_):
        """cmd or call or source; returns its status"""
        k = s[0]
        if k == 'cmd':
            st = self.ext(s[1], self.words(s[2], A_))
        elif k == 'call':
            if s[1] not in self.funcs:
                st = self.ext(s[1], self.words(s[2], A_))
            else:
                argv = self.words(s[2], A_)
                st = self.body(self.funcs[s[1]], [lit(s[1])] + argv)
                if st is None: st = 0
        elif k == 'source':
            argv = self.words(s[2], A_)
            if s[1] not in self.files: st = 1
            else:
                st = self.body(self.files[s[1]], [lit(s[1])] + argv)
                if st is None: st = 0
        self.prev = st
        return st
    def body(self, body, A_):
        last = None
        for s in body:
            k = s[0]
            if k in ('cmd', 'call', 'source'):
                last = self.simple(s, A_)
                if self.sete and self.failed(last): raise Abort(last)
            elif k == 'chain':
                st = None
                for i, c in enumerate(s[2]):
                    if i and s[1] == '&&' and self.failed(st): continue
                    if i and s[1] == '||' and not self.failed(st): continue
                    st = self.simple(c, A_)
                    if s[1] == ';' and self.sete and self.failed(st): raise Abort(st)
                last = st
                if self.sete and self.failed(last): raise Abort(last)
            elif k == 'if':
                st = self.simple(s[1], A_); last = ('either', 0, st)     # no branch taken: 0 (sh) or the condition's status (literal reading)
                if not self.failed(st):
                    last = st
                    r = self.body(s[2], A_)
                    if r is not None: last = r
                elif len(s) > 3 and s[3] is not None:
                    r = self.body(s[3], A_)
                    if r is not None: last = r
            elif k == 'for':
                for w in self.words(s[2], A_):
                    self.vars[s[1]] = w
                    r = self.body(s[3], A_)
                    if r is not None: last = r
            elif k == 'def': self.funcs[s[1]] = s[3]
            elif k == 'sete':
                self.sete = True; last = 0; self.prev = 0
            elif k == 'exit': raise Exit(s[1])
            elif k == 'assign':
                self.vars[s[1]] = lit(s[2]); last = 0; self.prev = 0
        return last

def sym_args(I, inst, b):
    ex = DQ_EX if inst['argq'] == 'd' else PLAIN_EX
    out = []
    for i in range(inst['nargs']):
        out.append(tuple(I.sym_char('a%d_%d' % (i + 1, j), exclude=ex) for j in range(b['arg_len'])))
    return out

def install_fs(I, texts):
    def exists(I_, path, which):
        p_ = ''.join(chr(c) for c in path)
        if p_.startswith('./'): p_ = p_[2:]
        if which == 'is_dir': return False
        return p_ in texts
    I.env.exists_handler = exists
    I.stubs['find_file_in_path'] = lambda I_, a, c: RString()
    def fopen(I_, a, c):
        pth = I.deref(a[0]); pth = tuple(pth.data) if isinstance(pth, Opaque) else I.str_of(pth)
        p_ = ''.join(chr(c_) for c_ in pth)
        if p_.startswith('./'): p_ = p_[2:]
        if p_ not in texts: return ERR(Opaque('io::Error'))
        return OK(Opaque('File', {'vpath': p_}))
    I.stubs['File::open'] = fopen
    def rts(I_, a, c):
        f = I.deref(a[0]); data = lit(texts[f.data['vpath']])
        I.deref(a[1]).c.extend(data); return OK(len(data))
    I.stubs['<File as Read>::read_to_string'] = rts

def script_body(inst, b):
    def h(I):
        p = I.prog
        I.env = models_env.Env(I, {'HOME': '/home/u', 'PATH': '/bin'}, unknown='unset')
        I.env.glob_handler = lambda I_, pat: []
        texts = {f: '\n'.join(render(body)) + '\n' for f, body in inst['files'].items()}
        I.h_texts = texts
        install_fs(I, texts)
        args = sym_args(I, inst, b); I.h_args = args
        trace = []; statuses = []; I.h_trace = trace; I.h_statuses = statuses
        sh = hlib.mk_shell(I); cell = [sh]
        def rp_stub(I_, a, c):
            shv = I.deref(a[0]); cl = I.deref(a[1])
            r = I.call_fn('try_run_func', [a[0], a[1], a[3], a[4]])
            if r.tag == 'Some': return TUP(False, r.f[0])
            cmds = hlib.field(p, cl, 'commands')
            cmd0 = I.deref(cmds.v[0])
            argv = [t[1] for t in hlib.tokens_of(I, hlib.field(p, cmd0, 'tokens'))]
            name = ''.join(chr(x) if not is_sym(x) else '?' for x in argv[0])
            if name == 'set' and len(argv) == 2 and tuple(argv[1]) == lit('-e'):
                hlib.set_field(p, shv, 'exit_on_error', True)
                return TUP(False, hlib.mk_struct(p, 'CommandResult', gid=0, status=0, stdout=RString(), stderr=RString()))
            if name == 'exit':
                return TUP(False, I.call_fn('builtins::exit::run', [a[0], a[1], Ref(cmds.v, 0), a[3]]))
            if name == 'source':
                return TUP(False, I.call_fn('builtins::source::run', [a[0], a[1], Ref(cmds.v, 0), a[3]]))
            trace.append([tuple(x) for x in argv])
            n = len(statuses) + 1
            if inst['sym_status'] or name.startswith('t'):
                st = I.sym_int('st%d' % n, 32, 0, 255)
            else:
                st = 0           # argument plumbing scenarios: only the conditions' statuses are symbolic
            if is_sym(st) and inst['st_small']: I.ctx.assume(z3.Or(st == 0, st == 1, st == 2, st == 255))
            statuses.append(st)
            return TUP(False, hlib.mk_struct(p, 'CommandResult', gid=0, status=st, stdout=RString(), stderr=RString()))
        I.stubs['run_pipeline'] = rp_stub; I.stubs['core::run_pipeline'] = rp_stub
        argv = RVec([RString(lit('cicada')), RString(lit('main.sh'))] + [RString(a) for a in args])
        ac = [argv]
        got_exit = None; got_status = None
        depth = len(I.stack)
        try:
            got_status = I.call_fn('run_script', [Ref(cell, 0), Ref(ac, 0)])
        except ProcessExit as e:
            got_exit = e.code; del I.stack[depth:]
        # ---- reference
        R = Reference(I, inst['files'], statuses, None)
        A_ = [lit('main.sh')] + [tuple(a) for a in args]
        want_exit = None; want_status = None
        try:
            r = R.body(inst['files']['main.sh'], A_)
            want_status = 0 if r is None else r
        except Exit as e: want_exit = e.code
        except Abort as e: want_status = e.status
        I.h_want = R.trace
        show = lambda tr: [[explore.chars_to_str(I.ctx.current_model(), w) if False else w for w in t] for t in tr]
        expect(I, len(trace) == len(R.trace), 'command-sequence', dict(got=trace, want=R.trace))
        for g, w in zip(trace, R.trace):
            ok = len(g) == len(w)
            if ok is True:
                ok = b_and(*[str_eq(x, y) for x, y in zip(g, w)])
            expect(I, ok, 'argv', dict(got=g, want=w))
        expect(I, (got_exit is None) == (want_exit is None), 'exit-vs-return', dict(got_exit=got_exit, want_exit=want_exit))
        if want_exit is not None:
            expect(I, got_exit == want_exit, 'exit-code', dict(got=got_exit, want=want_exit))
        else:
            if isinstance(want_status, tuple):
                expect(I, z3.Or(got_status == want_status[1], got_status == want_status[2]) if is_sym(got_status) or is_sym(want_status[2]) else got_status in want_status[1:], 'script-status', dict(got=got_status, want=want_status[2]))
            else:
                expect(I, got_status == want_status, 'script-status', dict(got=got_status, want=want_status))
        return dict(trace=trace, status=got_status, exit=got_exit)
    return h

# ---- token level -----------------------------------------------------------------------------------------------
def token_body(inst, b):
    def h(I):
        nargs = I.choose('nargs', b['max_args'] + 1)
        nargs = I.concretize(nargs)
        args = [tuple(I.sym_char('a%d_%d' % (i, j)) for j in range(b['arg_len'])) for i in range(nargs + 1)]
        tok = []; want = []
        k = 0
        for s in inst['segs']:
            if s == 'lit':
                c = I.sym_char('l%d' % k, exclude='${}@0123456789'); k += 1
                tok.append(c); want.append(c)
            else:
                tok += list(lit(s))
                key = s.strip('${}')
                if key == '@':
                    for i, a in enumerate(args[1:]):
                        if i: want.append(32)
                        want += list(a)
                else:
                    n = int(key)
                    if n < len(args): want += list(args[n])
        I.h_tok = tuple(tok); I.h_args = args
        av = RVec([RString(a) for a in args])
        r = I.call_fn('expand_args_for_single_token', [tuple(tok), Slice(av.v, 0, len(av.v)) if False else av])
        got = I.str_of(r)
        ok = str_eq(tuple(got), tuple(want)) if len(got) == len(want) else False
        expect(I, ok, 'token-substitution', dict(got=tuple(got), want=tuple(want)))
        return dict(got=tuple(got))
    return h

def tokens_body(inst, b):
    def h(I):
        args = [lit('s'), tuple(I.sym_char('a1_%d' % j) for j in range(b['arg_len']))]
        sep = inst['sep']
        toks = hlib.tokens_value([('', lit('k')), (sep, lit('$1')), ('', lit('x$1')), (sep, lit('pre${1}post'))])
        cell = [toks]
        av = RVec([RString(a) for a in args])
        I.call_fn('expand_args_in_tokens', [Ref(cell, 0), av])
        got = hlib.tokens_of(I, cell[0])
        keep = sep in ("'", '`')
        a1 = list(args[1])
        want = [lit('k'), lit('$1') if keep else tuple(a1), tuple(list(lit('x')) + a1), lit('pre${1}post') if keep else tuple(list(lit('pre')) + a1 + list(lit('post')))]
        for g, w in zip(got, want):
            ok = str_eq(tuple(g[1]), tuple(w)) if len(g[1]) == len(w) else False
            expect(I, ok, 'tokens-substitution', dict(sep=sep, got=g[1], want=w))
        expect(I, [g[0] for g in got] == [lit('') if False else tuple(lit(s)) for s in ('', sep, '', sep)], 'tokens-sep-changed', None)
        return dict(got=got)
    return h

# ---- native ------------------------------------------------------------------------------------------------------
def native_script(texts, args, statuses, timeout=20):
    d = tempfile.mkdtemp(prefix='cicada-verif-c15-')
    try:
        for f, t in texts.items(): open(os.path.join(d, f), 'w').write(t)
        log = os.path.join(d, 'log'); stf = os.path.join(d, 'statuses')
        open(stf, 'w').write('\n'.join(str(s) for s in statuses) + '\n')
        bind = os.path.join(d, 'bin'); os.makedirs(bind)
        helper = ('#!/usr/bin/python3\nimport sys, os, json\nlog=%r; stf=%r\nn=len(open(log).read().splitlines())\n'
                  'open(log,"a").write(json.dumps([os.path.basename(sys.argv[0])]+sys.argv[1:])+"\\n")\n'
                  'st=open(stf).read().split()\nsys.exit(int(st[n]) if n < len(st) else 0)\n') % (log, stf)
        names = set()
        for t in texts.values(): names |= set(re.findall(r'\b[ct]\d+\b', t))
        for nm in names:
            hp = os.path.join(bind, nm); open(hp, 'w').write(helper); os.chmod(hp, 0o755)
        open(log, 'w').close()
        env = {'HOME': '/home/u', 'PATH': bind + ':/usr/bin:/bin', 'LANG': 'C.UTF-8'}
        try:
            p = subprocess.run([CICADA, 'main.sh'] + list(args), cwd=d, env=env, stdin=subprocess.DEVNULL, stdout=subprocess.PIPE, stderr=subprocess.PIPE, timeout=timeout)
        except subprocess.TimeoutExpired:
            return dict(hang=True)
        tr = [json.loads(ln) for ln in open(log).read().split('\n') if ln.strip()]
        return dict(trace=tr, status=p.returncode, stderr=p.stderr.decode('utf-8', 'replace')[-300:])
    finally:
        shutil.rmtree(d, ignore_errors=True)

def strs(model, tr): return [[explore.chars_to_str(model, w) for w in t] for t in tr]

def run_instance(prog, inst, tier, seed, deadline):
    b = BOUNDS[tier]
    if inst['kind'] == 'token':
        def on_v(l, I):
            return dict(label=l.msg, kind='token', token=explore.chars_to_str(l.model, I.h_tok), args=[explore.chars_to_str(l.model, a) for a in I.h_args],
                        detail=conc(l.model, l.payload), key='token:' + '+'.join(sorted(set(s for s in inst['segs'] if s != 'lit'))))
        import native as nativemod
        nat = nativemod.Native(timeout=6, env={'PATH': '/usr/bin', 'HOME': '/home/u'})
        SPECIAL = set(' \t\n\r\'"`\\|&;<>()#!*?[]~=')
        def on_ok(l, I):
            tok = explore.chars_to_str(l.model, I.h_tok); args = [explore.chars_to_str(l.model, a) for a in I.h_args]
            got = conc(l.model, l.payload)['got']
            if not isinstance(got, str): got = ''.join(chr(c) for c in got)
            # scripting::expand_args works on a line: comparable when the token is one plain word and the result needs no re-quoting
            if not got or any(ch in SPECIAL or ch.isspace() or ord(ch) < 32 for ch in tok + got): return None
            try: r = nat.call('expand_args', 'k ' + tok, *args)
            except nativemod.NativeHang: return ('mismatch', dict(token=tok, args=args, native='hang'))
            if r != 'k ' + got: return ('mismatch', dict(token=tok, args=args, symbolic='k ' + got, native=r))
            return ('validated', 1)
        try:
            return hsupport.run_paths(prog, token_body(inst, b), deadline, on_ok=on_ok, on_violation=on_v, step_budget=400_000)
        finally:
            nat.close()
    if inst['kind'] == 'tokens':
        def on_v(l, I):
            return dict(label=l.msg, kind='tokens', detail=conc(l.model, l.payload), key='tokens:%s:%s' % (l.msg, inst['sep']))
        return hsupport.run_paths(prog, tokens_body(inst, b), deadline, on_violation=on_v, step_budget=400_000)
    def pack(l, I):
        return dict(texts=I.h_texts, args=[explore.chars_to_str(l.model, a) for a in I.h_args], statuses=[conc(l.model, s) for s in I.h_statuses],
                    want_trace=strs(l.model, I.h_want) if hasattr(I, 'h_want') else None)
    def on_ok(l, I):
        if (l.decisions + seed) % 2: return None
        d = pack(l, I)
        if any('\x00' in a for a in d['args']): return None
        r = native_script(d['texts'], d['args'], d['statuses'])
        want = strs(l.model, I.h_trace)
        if r.get('trace') != want: return ('mismatch', dict(d, symbolic=want, native=r))
        res = conc(l.model, l.payload)
        exp_status = res['exit'] if res['exit'] is not None else res['status']
        if r.get('status') != (exp_status & 255): return ('mismatch', dict(d, symbolic_status=exp_status, native=r))
        return ('validated', 1)
    def on_violation(l, I):
        d = pack(l, I)
        d.update(label=l.msg, kind='script', detail=conc(l.model, l.payload), scenario=inst['name'], key='%s:%s' % (inst['name'].split('/')[0], l.msg))
        return d
    def on_panic(l, I):
        d = pack(l, I) if hasattr(I, 'h_texts') else {}
        d.update(label='crash', kind='script', scenario=inst['name'], key='crash:%s:%s' % (inst['name'].split('/')[0], str(l.msg)[:40]))
        return d
    return hsupport.run_paths(prog, script_body(inst, b), deadline, on_ok=on_ok, on_violation=on_violation, on_panic=on_panic, step_budget=3_000_000,
                              prefix=inst.get('_prefix'), split_depth=inst.get('_split'))

def replay(v):
    if v['kind'] in ('token', 'tokens'):
        # function-level: expand_args on a line consisting of `k TOKEN` shows the same substitution when the token is one plain word
        import native as nativemod
        if v['kind'] == 'tokens': return dict(reproduced=False, note='token-list level violation: no native entry', detail=v.get('detail'))
        tok = v['token']; args = v['args']
        nat = nativemod.Native(timeout=6, env={'PATH': '/usr/bin', 'HOME': '/home/u'})
        try: r = nat.call('expand_args', 'k ' + tok, *args)
        except nativemod.NativeHang: r = 'hang'
        finally: nat.close()
        want = 'k ' + ''.join(chr(c) if isinstance(c, int) else c for c in v['detail']['want']) if not isinstance(v['detail']['want'], str) else 'k ' + v['detail']['want']
        return dict(witness=tok, args=args, native=r, expected=want, reproduced=(r != want and not any(ch in tok for ch in ' \'"`\\')))
    r = native_script(v['texts'], v['args'], v['statuses'])
    if r.get('hang'): return dict(witness=v['texts'], native='hang', reproduced=True)
    lab = v['label']; det = v.get('detail') or {}
    rep = False
    if lab in ('command-sequence', 'argv'):
        rep = v.get('want_trace') is not None and r.get('trace') != v['want_trace']
    elif lab in ('script-status', 'exit-code', 'exit-vs-return'):
        want = det.get('want_exit') if det.get('want_exit') is not None else det.get('want')
        rep = want is not None and r.get('status') != (int(want) & 255)
    elif lab == 'crash':
        rep = r.get('status') in (101, 134) or 'panicked' in r.get('stderr', '')
    return dict(witness=v['texts'], args=v['args'], statuses=v['statuses'], expected_trace=v.get('want_trace'), expected=det, native=r, reproduced=rep)

def replay_file(path):
    d = json.load(open(path)); r = replay(d['violation']); print(json.dumps(r, indent=1))
    if r['reproduced']:
        print('VIOLATION property=%s replay=%s' % (PROPERTY, path)); return 1
    return 0

def finish(pid, tier, seed, results, known, wall, th, log):
    agg = hsupport.merge(results)
    hsupport.report_issues(agg, log)
    code, lines, new, nknown = hsupport.triage(pid, agg, known, lambda v: v['key'], replay, log, max_replays_per_key=5)
    for ln in lines: print(ln)
    extra = dict(bounds=BOUNDS[tier], scenarios=len(results), repo_tree=th, violating_paths=len(agg['violations']), new_violations=new, known_findings_reproduced=nknown)
    hsupport.write_evidence(pid, tier, seed, agg, wall, extra, ASSUMPTIONS, new)
    log('paths=%d queries=%d solver=%.1fs validated=%d violations(paths)=%d new=%d known=%d -> exit %d' % (
        agg['paths'], agg['queries'], agg['solver_s'], agg['validated'], len(agg['violations']), new, nknown, code))
    return code
