"""C07 - terminal belongs to the foreground job while it runs, else to the shell (call-sequence level, see oshar.py).
Asserted over the process-group / terminal model of osmodel.py: every child calls setpgid(0, g) with g = the first
stage's pid; while a foreground tty job is waited for the terminal's foreground group is that job's group; when
run_proc returns it is the shell's group again on every path (also when tcsetpgrp fails once); a background pipeline
never receives the terminal and is not waited for; the signal mask
(pthread_sigmask model) of the shell is restored after every terminal hand-over and no child execs with job-control
signals blocked (otherwise Ctrl-Z cannot stop it)."""
import oswrap
oswrap.make(globals(), 'C07', ('pipe',), [
    'every interactive spec is additionally run once through the real binary on a pseudo-terminal under strace -f (setpgid / TIOCSPGRP / rt_sigprocmask / fork / execve records) and judged by the same predicates; violations are replayed the same way',
    'claimed at call-sequence level only: the kernel\'s delivery of Ctrl-C/Ctrl-Z, real process states and the pty are outside; the fg/bg/jobs builtins and the main-loop polling are not encoded',
    'wait_fg_job is a stub returning any status (its behaviour is C06); tcsetpgrp may fail once (solver\'s choice)',
    'lines: 1..3 external stages (thorough 5), builtins in every position, background, not-found',
], ('process-group', 'terminal-not-given-to-job', 'terminal-not-returned', 'background-job-got-terminal', 'background-job-waited',
    'foreground-not-waited', 'waited-wrong-pids', 'shell-signal-mask-not-restored', 'child-inherits-blocked-signals'), keep=lambda s: not s.get('capture'), extra_fds=(), tc_faults=True, faults=(False, True), native=False, tty_native=True)
