"""C14 - scripts execute exactly the command sequence their block structure prescribes.

Encoded (MIR): scripting::{run_lines, run_exp, run_exp_if, run_exp_test_br, run_exp_for, run_exp_while, get_for_*,
expand_args}, parsers::locust::parse_lines.  The parse tree comes from the pest MODEL (pestmodel.py) interpreting
/repo/src/parsers/grammar.pest.  execute::run_command_line is a stub: it records the line and the current value of the
loop variable and returns a symbolic exit status.
Scripts are enumerated abstract syntax trees (stated as enumeration); the exit statuses of all conditions and commands
are the solver's variables.  Oracle: structured reference semantics; while loops are cut after K iterations by the
environment (the condition fails from then on)."""
import itertools, json, os, shutil, subprocess, tempfile
import z3
import hsupport, hlib, explore, models_env
from engine import (lit, Ref, Agg, RString, RVec, Slice, is_sym, str_eq, b_and)
from explore import expect, conc, Violation

PROPERTY = 'C14'
HELPERS = os.path.join(hsupport.VERIF, 'helpers/bin')
CICADA = os.path.join(hsupport.VERIF, 'build/bin/debug/cicada')
BUDGET = {'quick': 900, 'thorough': 1500}
BOUNDS = {'quick': dict(max_nodes=5, depth=2, while_k=2, sym_plain=2), 'thorough': dict(max_nodes=6, depth=3, while_k=3, sym_plain=3)}
ASSUMPTIONS = [
    'the quick tier explores a VERIF_SEED-selected sample (about 700) of the scripts within its bound, not all of them', 'scripts are enumerated ASTs over {command, if / else if / else, for over 1-3 words, while, break, continue} up to the node and depth bound (thorough: trees of <= 4 nodes at depth 3 in both spellings, a VERIF_SEED-selected half of the 5-node trees at depth 3, plus a VERIF_SEED-selected fortieth of the 6-node trees at depth 2), rendered in the newline spelling and in the `; then` / `; do` spelling; plus 16 directed deep chains (break / continue two and three if-levels below their loop); exit statuses of all commands and conditions are symbolic',
    'pest is modelled (PEG evaluator over /repo/src/parsers/grammar.pest) - trusted base; every script is also parsed by the real parser in the binary replay of violations',
    'stub execute::run_command_line: records its line and returns an arbitrary status (conditions: always symbolic; plain commands: the first sym_plain executions symbolic, later ones concrete since only `set -e` (C15) reads them); a `while` condition is forced to fail after K successful iterations (environment contract) so every path terminates',
    'unbalanced scripts (a block keyword missing) are negatives: the oracle demands a diagnostic and that no command after the unbalanced construct runs',
]

# ---- AST ------------------------------------------------------------------------------------------------
# ('cmd', name) ('if', [(test, body)...], else_body|None) ('for', [words], body) ('while', test, body) ('break',) ('continue',)
def gen_bodies(nodes, depth, in_loop, counter):
    """all statement lists using exactly `nodes` nodes"""
    if nodes == 0:
        yield []; return
    for first_size in range(1, nodes + 1):
        for stmt in gen_stmt(first_size, depth, in_loop):
            for rest in gen_bodies(nodes - first_size, depth, in_loop, counter):
                yield [stmt] + rest

def gen_stmt(size, depth, in_loop):
    if size == 1:
        yield ('cmd',)
        if in_loop:
            yield ('break',); yield ('continue',)
        return
    if depth == 0: return
    # if: 1 node for the head + bodies
    for nb in (1, 2):
        for has_else in (False, True):
            inner = size - nb           # nodes available for bodies (each branch body >= 1)
            parts = nb + (1 if has_else else 0)
            if inner < parts: continue
            for split in compositions(inner, parts):
                for bodies in itertools.product(*[list(gen_bodies_nonempty(s, depth - 1, in_loop)) for s in split]):
                    brs = [(None, list(bodies[i])) for i in range(nb)]
                    yield ('if', brs, list(bodies[nb]) if has_else else None)
    for body in gen_bodies_nonempty(size - 1, depth - 1, True):
        yield ('for', list(body))
        yield ('while', list(body))

def gen_bodies_nonempty(nodes, depth, in_loop):
    if nodes <= 0: return
    yield from gen_bodies(nodes, depth, in_loop, None)

def compositions(total, k):
    if k == 1:
        yield (total,); return
    for a in range(1, total - k + 2):
        for rest in compositions(total - a, k - 1): yield (a,) + rest

def label(ast):
    """assign names c1.., t1.. in textual order; returns new ast"""
    cnt = {'c': 0, 't': 0, 'v': 0}
    def L(body):
        out = []
        for s in body:
            k = s[0]
            if k == 'cmd':
                cnt['c'] += 1; out.append(('cmd', 'c%d' % cnt['c']))
            elif k in ('break', 'continue'): out.append(s)
            elif k == 'if':
                brs = []
                for _, b in s[1]:
                    cnt['t'] += 1; t = 't%d' % cnt['t']
                    brs.append((t, L(b)))
                out.append(('if', brs, L(s[2]) if s[2] is not None else None))
            elif k == 'for':
                cnt['v'] += 1
                out.append(('for', 'x%d' % cnt['v'], ['wa', 'wb', 'wc'][:1 + cnt['v'] % 3], L(s[1])))
            elif k == 'while':
                cnt['t'] += 1; t = 't%d' % cnt['t']
                out.append(('while', t, L(s[1])))
        return out
    return L(ast)

def render(body, style, ind=0):
    pad = '    ' * ind if style == 'nl' else ''
    lines = []
    for s in body:
        k = s[0]
        if k == 'cmd': lines.append(pad + s[1])
        elif k in ('break', 'continue'): lines.append(pad + k)
        elif k == 'if':
            for i, (t, b) in enumerate(s[1]):
                head = ('if ' if i == 0 else 'else if ') + t
                lines.append(pad + head + ('; then' if style == 'then' else ''))
                lines += render(b, style, ind + 1)
            if s[2] is not None:
                lines.append(pad + 'else'); lines += render(s[2], style, ind + 1)
            lines.append(pad + 'fi')
        elif k == 'for':
            lines.append(pad + 'for %s in %s' % (s[1], ' '.join(s[2])) + ('; do' if style == 'then' else ''))
            lines += render(s[3], style, ind + 1); lines.append(pad + 'done')
        elif k == 'while':
            lines.append(pad + 'while ' + s[1] + ('; do' if style == 'then' else ''))
            lines += render(s[2], style, ind + 1); lines.append(pad + 'done')
    return lines

def instances(tier, seed):
    b = BOUNDS[tier]
    out = []; seen = set()
    idx = 0
    for n in range(1, b['max_nodes'] + 1):
        depth = b['depth'] if n < b['max_nodes'] or tier == 'quick' else b['depth'] - 1      # thorough: the largest size at one level less
        for ast in gen_bodies(n, depth, False, None):
            lab = label(ast)
            key = json.dumps(lab)
            if key in seen: continue
            seen.add(key)
            idx += 1
            for style in ('nl', 'then'):
                if style == 'then' and not any(s[0] in ('if', 'for', 'while') for s in walk(lab)): continue
                out.append(dict(name='ast%d/%s' % (idx, style), ast=lab, style=style, kind='wf'))
    # directed deep chains (beyond the quick depth bound): break / continue two and three `if` levels below their loop,
    # with and without else arms, followed by a command that must be skipped
    def chain(loop, kw, levels, with_else):
        inner = [('cmd',), (kw,), ('cmd',)]
        for _ in range(levels):
            inner = [('if', [(None, inner)], [('cmd',)] if with_else else None), ('cmd',)]
        return [(loop, inner), ('cmd',)]
    for loop in ('for', 'while'):
        for kw in ('break', 'continue'):
            for levels in (2, 3):
                for with_else in (False, True):
                    lab = label(chain(loop, kw, levels, with_else))
                    idx += 1
                    out.append(dict(name='deep%d/%s-%s-%d%s/nl' % (idx, loop, kw, levels, '-else' if with_else else ''), ast=lab, style='nl', kind='wf', keep=True))
    # the 'then' spelling parses to the same tree: thorough explores it for every tree of <= 5 nodes, the newline spelling for all
    if tier == 'thorough':
        out = [o for k, o in enumerate(out) if o.get('keep') or len(list(walk(o['ast']))) <= 4 or (o['style'] == 'nl' and len(list(walk(o['ast']))) <= 5 and (k + seed) % 2 == 0) or (o['style'] == 'nl' and (k + seed) % 40 == 0)]
    # textual variants of small trees: blank lines, tab indentation, no final newline, break/continue outside a loop
    small = [o for o in out if o['style'] == 'nl' and 2 <= len(list(walk(o['ast']))) <= 3]
    for o in small:
        lines = render(o['ast'], 'nl')
        out.append(dict(o, name=o['name'] + '/blank', text='\n' + '\n\n'.join(lines) + '\n\n'))
        out.append(dict(o, name=o['name'] + '/tabs', text='\n'.join(l.replace('    ', '\t') + ' ' for l in lines) + '\n'))
        out.append(dict(o, name=o['name'] + '/noeol', text='\n'.join(lines)))
    for kw in ('break', 'continue'):
        ast = [('cmd', 'c1'), (kw,), ('cmd', 'c2')]
        out.append(dict(name='toplevel-' + kw, ast=ast, style='nl', kind='wf'))
        ast = [('if', [('t1', [('cmd', 'c1'), (kw,), ('cmd', 'c2')])], None), ('cmd', 'c3')]
        out.append(dict(name='toplevel-if-' + kw, ast=ast, style='nl', kind='wf'))
    # negatives: a closing keyword missing, a closing keyword too many, a stray else
    negs = 0; lim = 16 if tier == 'quick' else 60
    for i in list(out):
        if i['style'] != 'nl' or i.get('text') or negs >= lim or i['kind'] != 'wf': continue
        lines = render(i['ast'], 'nl')
        for kw in ('fi', 'done'):
            pos = [k for k, ln in enumerate(lines) if ln.strip() == kw]
            if pos:
                cut = lines[:pos[-1]] + lines[pos[-1] + 1:]
                out.append(dict(name=i['name'] + '/missing-' + kw, ast=i['ast'], style='nl', kind='unbalanced', text='\n'.join(cut) + '\n', missing='missing-' + kw))
                extra = lines[:pos[0] + 1] + [kw] + lines[pos[0] + 1:] + ['c9']
                out.append(dict(name=i['name'] + '/extra-' + kw, ast=i['ast'], style='nl', kind='unbalanced', text='\n'.join(extra) + '\n', missing='extra-' + kw))
                negs += 1; break
    out.append(dict(name='stray-else', ast=[], style='nl', kind='unbalanced', text='c1\nelse\nc2\n', missing='stray-else'))
    out.append(dict(name='else-after-fi', ast=[], style='nl', kind='unbalanced', text='if t1\nc1\nfi\nelse\nc2\nfi\n', missing='stray-else'))
    if tier == 'quick' and len(out) > 800:
        m = (len(out) // 700) + 1
        out = [o for k, o in enumerate(out) if o['kind'] == 'unbalanced' or o.get('keep') or k % m == (seed % m)]
    return out

def walk(body):
    for s in body:
        yield s
        if s[0] == 'if':
            for _, b in s[1]: yield from walk(b)
            if s[2] is not None: yield from walk(s[2])
        elif s[0] == 'for': yield from walk(s[3])
        elif s[0] == 'while': yield from walk(s[2])

class Env14:
    """status source shared by implementation stub and reference"""
    def __init__(self, I, K):
        self.I = I; self.K = K; self.n = 0; self.while_ok = {}
    def status(self, name):
        self.n += 1
        return self.I.sym_int('st%d' % self.n, 32, 0, 255)

def reference(I, ast, statuses, K):
    """trace of (name, loopvars) using the recorded statuses in order; returns (trace, consumed)"""
    trace = []; pos = [0]
    class Brk(Exception): pass
    class Cont(Exception): pass
    def run_cmd(name, env):
        trace.append((name, dict(env)))
        st = statuses[pos[0]] if pos[0] < len(statuses) else None
        pos[0] += 1
        return st
    def passed(st):
        if st is None: return False
        return hlib.truthy(I, st == 0)
    def body(b, env, in_loop):
        for s in b:
            k = s[0]
            if k == 'cmd': run_cmd(s[1], env)
            elif k == 'break':
                if in_loop: raise Brk()
            elif k == 'continue':
                if in_loop: raise Cont()
            elif k == 'if':
                done = False
                for t, bb in s[1]:
                    if passed(run_cmd(t, env)):
                        body(bb, env, in_loop); done = True; break
                if not done and s[2] is not None: body(s[2], env, in_loop)
            elif k == 'for':
                for w in s[2]:
                    env2 = dict(env); env2[s[1]] = w
                    try: body(s[3], env2, True)
                    except Cont: continue
                    except Brk: break
            elif k == 'while':
                it = 0
                while True:
                    st = run_cmd(s[1], env)
                    if not passed(st): break
                    it += 1
                    try: body(s[2], env, True)
                    except Cont: continue
                    except Brk: break
    body(ast, {}, False)
    return trace, pos[0]

def body_fn(inst, b, seed_=0):
    def h(I):
        p = I.prog
        K = b['while_k']
        I.env = models_env.Env(I, {}, unknown='unset')
        text = inst.get('text') or ('\n'.join(render(inst['ast'], inst['style'])) + '\n')
        I.h_text = text
        trace = []; statuses = []; I.h_statuses = statuses
        whiles = set(s[1] for s in walk(inst['ast']) if s[0] == 'while')
        wcount = {}; nplain = [0]
        sh = hlib.mk_shell(I); cell = [sh]
        def rcl_stub(I_, a, c):
            shv = I.deref(a[0]); line = ''.join(chr(x) for x in I.str_of(a[1])).strip()
            envs = {''.join(chr(c_) for c_ in I.str_of(k)): ''.join(chr(c_) for c_ in I.str_of(v)) for k, v in hlib.field(p, shv, 'envs').items}
            trace.append((line, {k: v for k, v in envs.items() if k.startswith('x')}))
            n = len(statuses) + 1
            is_test = line.startswith('t')
            if is_test or nplain[0] < b['sym_plain']:
                st = I.sym_int('st%d' % n, 32, 0, 255)
            else:
                st = 1 if (n + seed_) % 2 else 0        # the sequence does not depend on it (set -e is C15): concrete beyond the bound
            if not is_test: nplain[0] += 1
            if line in whiles:
                wcount[line] = wcount.get(line, 0) + 1
                if wcount[line] > K: I.ctx.assume(st != 0)       # environment: the condition eventually fails
            statuses.append(st)
            hlib.set_field(p, shv, 'previous_status', len(statuses))      # the environment's progress is part of the shell state (keeps the repeated-state hang detector from seeing a loop whose only change is in the stub)
            cr = hlib.mk_struct(p, 'CommandResult', gid=0, status=st, stdout=RString(), stderr=RString())
            return RVec([cr])
        I.stubs['run_command_line'] = rcl_stub; I.stubs['execute::run_command_line'] = rcl_stub
        args = RVec([RString(lit('script'))])
        ac = [args]
        I.call_fn('run_lines', [Ref(cell, 0), lit(text), Ref(ac, 0), False])
        I.h_trace = trace
        diag = any(lit('syntax error') == tuple(t[1][:12]) for t in I.transcript)
        if inst['kind'] == 'unbalanced':
            # everything up to the unbalanced construct may run; the construct must be diagnosed, and nothing of / after it may run silently
            I.h_diag = diag
            expect(I, diag, 'unbalanced-script-not-diagnosed', dict(ran=[t[0] for t in trace]))
            return dict(trace=trace)
        ref_trace, used = reference(I, inst['ast'], statuses, K)
        I.h_ref = ref_trace
        got = [(t[0], t[1]) for t in trace]
        # loop variables: only the innermost binding visible to a command matters for comparison with the reference env
        def norm(tr): return [(n_, tuple(sorted(e.items()))) for n_, e in tr]
        want = [(n_, e) for n_, e in ref_trace]
        # the shell variable persists after the loop in cicada (as in sh): compare names always, loop variables only inside their loop
        names_ok = [g[0] for g in got] == [w[0] for w in want]
        expect(I, names_ok, 'command-sequence', dict(got=[g[0] for g in got], want=[w[0] for w in want]))
        for g, w in zip(got, want):
            for var, val in w[1].items():
                expect(I, g[1].get(var) == val, 'for-binding', dict(cmd=g[0], var=var, got=g[1].get(var), want=val))
        expect(I, not diag, 'well-formed-script-rejected', None)
        return dict(trace=[g[0] for g in got])
    return h

# ---- native replay: the script through the real binary with status-programmed helpers -----------------------
def native_run(text, statuses, timeout=20):
    d = tempfile.mkdtemp(prefix='cicada-verif-c14-')
    try:
        sp = os.path.join(d, 's.sh'); open(sp, 'w').write(text)
        log = os.path.join(d, 'log'); stf = os.path.join(d, 'statuses')
        open(stf, 'w').write('\n'.join(str(s) for s in statuses) + '\n')
        bind = os.path.join(d, 'bin'); os.makedirs(bind)
        helper = '#!/bin/sh\n# records its name and loop variables, exits with the next programmed status\nn=$(wc -l < "%s")\necho "$(basename $0) x1=$x1 x2=$x2 x3=$x3" >> "%s"\nst=$(sed -n "$((n+1))p" "%s")\nexit ${st:-1}\n' % (log, log, stf)
        import re
        for nm in set(re.findall(r'\b[ct]\d+\b', text)):
            hp = os.path.join(bind, nm); open(hp, 'w').write(helper); os.chmod(hp, 0o755)
        open(log, 'w').close()
        env = {'HOME': '/home/u', 'PATH': bind + ':/usr/bin:/bin', 'LANG': 'C.UTF-8'}
        try:
            p = subprocess.run([CICADA, sp], cwd=d, env=env, stdin=subprocess.DEVNULL, stdout=subprocess.PIPE, stderr=subprocess.PIPE, timeout=timeout)
        except subprocess.TimeoutExpired:
            return dict(hang=True)
        tr = [ln.split()[0] for ln in open(log).read().split('\n') if ln.strip()]
        return dict(trace=tr, status=p.returncode, stderr=p.stderr.decode('utf-8', 'replace')[-300:])
    finally:
        shutil.rmtree(d, ignore_errors=True)

def run_instance(prog, inst, tier, seed, deadline):
    b = BOUNDS[tier]
    def sts(l, I):
        return [conc(l.model, x) for x in I.h_statuses]
    def on_ok(l, I):
        if inst['kind'] != 'wf' or (l.decisions + seed) % 3 != 0: return None
        # exported loop variables are not visible to helper processes (shell variables): compare command names
        r = native_run(I.h_text, sts(l, I))
        want = [t[0] for t in I.h_trace]
        if r.get('trace') != want: return ('mismatch', dict(script=I.h_text, statuses=sts(l, I), symbolic=want, native=r))
        return ('validated', 1)
    def on_violation(l, I):
        kinds = sorted(set(s[0] for s in walk(inst['ast'])))
        return dict(label=l.msg, script=I.h_text, statuses=sts(l, I), detail=l.payload, kind=inst['kind'], missing=inst.get('missing'),
                    key='%s:%s' % (l.msg, inst.get('missing') or '+'.join(kinds)))
    def on_panic(l, I):
        if l.status == 'exit': return None
        return dict(label='crash', script=I.h_text, statuses=sts(l, I), key='crash:' + str(l.msg)[:40], kind=inst['kind'])
    return hsupport.run_paths(prog, body_fn(inst, b, seed), deadline, on_ok=on_ok, on_violation=on_violation, on_panic=on_panic, step_budget=800_000)

def replay(v):
    r = native_run(v['script'], v['statuses'])
    if r.get('hang'): return dict(witness=v['script'], native='hang', reproduced=True)
    if v['kind'] == 'unbalanced':
        rep = 'syntax error' not in r.get('stderr', '')
        return dict(witness=v['script'], statuses=v['statuses'], native=r, reproduced=rep, note='no syntax error reported for the unbalanced script')
    want = (v.get('detail') or {}).get('want')
    rep = want is not None and r.get('trace') != want
    return dict(witness=v['script'], statuses=v['statuses'], expected_trace=want, native=r, reproduced=rep)

def replay_file(path):
    d = json.load(open(path)); r = replay(d['violation']); print(json.dumps(r, indent=1))
    if r['reproduced']:
        print('VIOLATION property=%s replay=%s' % (PROPERTY, path)); return 1
    return 0

def finish(pid, tier, seed, results, known, wall, th, log):
    agg = hsupport.merge(results)
    hsupport.report_issues(agg, log)
    code, lines, new, nknown = hsupport.triage(pid, agg, known, lambda v: v['key'], replay, log, max_replays_per_key=5)
    for ln in lines: print(ln)
    extra = dict(bounds=BOUNDS[tier], scripts=len(results), repo_tree=th, violating_paths=len(agg['violations']), new_violations=new, known_findings_reproduced=nknown)
    hsupport.write_evidence(pid, tier, seed, agg, wall, extra, ASSUMPTIONS, new)
    log('paths=%d queries=%d solver=%.1fs validated=%d violations(paths)=%d new=%d known=%d -> exit %d' % (
        agg['paths'], agg['queries'], agg['solver_s'], agg['validated'], len(agg['violations']), new, nknown, code))
    return code
