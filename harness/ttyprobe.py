"""native probe for C07: the real binary as an interactive shell on a pseudo-terminal under `strace -f`; returns the
job-control facts of ONE line (process groups of the stage processes, terminal hand-overs by the shell, the shell's
signal mask when it forks and when it is back at the prompt).  The kernel side (delivery of Ctrl-C / Ctrl-Z) stays
outside; this is the call sequence of the real build, i.e. what the model of osmodel.py claims to predict."""
import os, pty, re, select, shutil, subprocess, tempfile, time
import hsupport
HELPERS = os.path.join(hsupport.VERIF, 'build/helpers')
CICADA = os.path.join(hsupport.VERIF, 'build/bin/debug/cicada')
JOBSIGS = {'TSTP', 'TTIN', 'TTOU', 'CHLD'}

def _drain(fd, quiet=0.6, maxwait=8.0):
    end = time.time() + maxwait; last = time.time(); got = b''
    while time.time() < end and time.time() - last < quiet:
        r, _, _ = select.select([fd], [], [], 0.1)
        if r:
            try: d = os.read(fd, 65536)
            except OSError: break
            if not d: break
            got += d; last = time.time()
    return got

def probe(line, timeout=40):
    d = tempfile.mkdtemp(prefix='cicada-verif-tty-')
    try:
        trace = os.path.join(d, 'trace.txt')
        env = {'HOME': d, 'PATH': HELPERS + ':/usr/bin:/bin', 'TERM': 'xterm', 'LANG': 'C.UTF-8', 'ARGV_OUT': os.path.join(d, 'reports.jsonl')}
        argv = ['strace', '-f', '-o', trace, '-e', 'trace=setpgid,getpgid,ioctl,rt_sigprocmask,execve,clone,clone3,fork,vfork', CICADA]
        pid, fd = pty.fork()
        if pid == 0:
            os.chdir(d); os.execvpe(argv[0], argv, env)
        try:
            _drain(fd, quiet=1.0)
            os.write(fd, b'c5\r'); _drain(fd)                     # a first command, so that the line under test is not the session's first
            os.write(fd, line.encode() + b'\r'); _drain(fd, quiet=1.0)
            os.write(fd, b'c5 end-marker\r'); _drain(fd)
            os.write(fd, b'exit\r'); _drain(fd, quiet=0.3, maxwait=2)
        finally:
            try: os.kill(pid, 9)
            except OSError: pass
            try: os.waitpid(pid, 0)
            except OSError: pass
            os.close(fd)
        text = open(trace).read() if os.path.exists(trace) else ''
        return parse(text, line)
    finally:
        shutil.rmtree(d, ignore_errors=True)

def parse(text, line):
    ev = []
    pending = {}
    for ln in text.split('\n'):
        m = re.match(r'^(\d+)\s+(.*)$', ln)
        if not m: continue
        p = int(m.group(1)); rest = m.group(2)
        if rest.endswith('<unfinished ...>'):
            pending[p] = rest[:-len('<unfinished ...>')].rstrip(); continue
        m2 = re.match(r'^<\.\.\. (\w+) resumed>(.*)$', rest)
        if m2 and p in pending: rest = pending.pop(p) + m2.group(2)
        ev.append((p, rest))
    shell = None
    for p, r in ev:
        if r.startswith('execve(') and CICADA in r.split(',')[0]: shell = p; break
    if shell is None: return dict(error='shell process not found in the trace', raw=text[-800:])
    # window: between the first `c5` command and the end marker
    def is_exec(r, prog): return r.startswith('execve("%s/%s"' % (HELPERS, prog))
    idx_c5 = [i for i, (p, r) in enumerate(ev) if is_exec(r, 'c5')]
    if len(idx_c5) < 2: return dict(error='window markers not found', raw=text[-800:])
    lo = idx_c5[0]; hi = [i for i in idx_c5 if 'end-marker' in ev[i][1]]
    hi = hi[0] if hi else idx_c5[-1]
    marker_pid = ev[hi][0]
    # the line under test starts after the prompt that followed the first c5 was drawn (its `whoami` child is the first fork after c5)
    for i in range(lo + 1, hi):
        if ev[i][0] == shell and re.match(r'^(clone3?|fork|vfork)\(', ev[i][1]): lo = i; break
    for i in range(hi, lo, -1):
        if ev[i][0] == shell and re.match(r'^(clone3?|fork|vfork)\(.*= %d$' % marker_pid, ev[i][1]): hi = i; break
    mask = set(); masks_at_fork = []; children = []; tios = []; shell_pgrp = None; groups = {}; execs = {}
    for i, (p, r) in enumerate(ev):
        if p == shell:
            m = re.match(r'^rt_sigprocmask\((SIG_\w+), (\[[^\]]*\]|~\[[^\]]*\]|NULL)', r)
            if m and ' = 0' in r:
                how, st = m.group(1), m.group(2)
                if st != 'NULL':
                    neg = st.startswith('~'); names = set(st.strip('~[]').split())
                    if neg: names = {'ALL-BUT'} | names
                    if how == 'SIG_BLOCK': mask |= names
                    elif how == 'SIG_UNBLOCK': mask -= names
                    elif how == 'SIG_SETMASK': mask = set(names)
            m = re.match(r'^(clone3?|fork|vfork)\(.*= (\d+)$', r)
            if m and lo < i < hi and 'CLONE_THREAD' not in r:
                children.append(int(m.group(2))); masks_at_fork.append(sorted(mask & JOBSIGS))
            m = re.match(r'^ioctl\(\d+, TIOCSPGRP, \[(\d+)\]\)\s+= (-?\d+)', r)
            if m and lo < i < hi: tios.append((int(m.group(1)), int(m.group(2))))
            m = re.match(r'^getpgid\(0\)\s+= (\d+)', r)
            if m: shell_pgrp = int(m.group(1))
        else:
            m = re.match(r'^setpgid\(0, (\d+)\)\s+= (-?\d+)', r)
            if m: groups[p] = int(m.group(1))       # the group the child asked for (the call fails with EPERM when a short-lived leader is already gone: kernel-side race, outside the claim)
            m = re.match(r'^execve\("([^"]+)"', r)
            if m and ' = 0' in r: execs[p] = m.group(1)
    children = [c for c in children if c != marker_pid and (execs.get(c) is None or execs[c].startswith(HELPERS + '/'))]
    masks_at_fork = [m for c, m in zip(list(children), masks_at_fork)]
    final_mask = sorted(mask & JOBSIGS)
    return dict(line=line, shell=shell, shell_pgrp=shell_pgrp, children=children, groups={c: groups.get(c) for c in children}, execs={c: execs.get(c) for c in children},
                tcsetpgrp=tios, masks_at_fork=masks_at_fork[:len(children)], final_mask=final_mask)

def judge(f, spec):
    """problems (same labels as oshar.check) visible in the facts of a real run"""
    if f.get('error'): return None
    n = len(spec['stages']); nb = sum(1 for s in spec['stages'] if s['builtin'])
    single_builtin = n == 1 and nb == 1
    pr = []
    ch = f['children']
    if not single_builtin and len(ch) != n: pr.append(('stage-start-count', 'forked %d processes for %d stages' % (len(ch), n)))
    if ch:
        lead = ch[0]
        bad = {c: g for c, g in f['groups'].items() if g != lead}
        if bad: pr.append(('process-group', 'stages not in the group of the first stage %d: %s' % (lead, bad)))
        job_tc = [g for g, rc in f['tcsetpgrp'] if g == lead]
        if spec.get('bg'):
            if job_tc: pr.append(('background-job-got-terminal', 'tcsetpgrp(%d) for a background job' % lead))
        else:
            if not job_tc: pr.append(('terminal-not-given-to-job', 'no tcsetpgrp to the job group %d: %s' % (lead, f['tcsetpgrp'])))
            if f['tcsetpgrp'] and f['shell_pgrp'] is not None and f['tcsetpgrp'][-1][0] != f['shell_pgrp']:
                pr.append(('terminal-not-returned', 'last tcsetpgrp is to %d, the shell group is %d' % (f['tcsetpgrp'][-1][0], f['shell_pgrp'])))
    if any(f['masks_at_fork']): pr.append(('child-inherits-blocked-signals', 'the shell forked with %s blocked' % [m for m in f['masks_at_fork'] if m][0]))
    if f['final_mask']: pr.append(('shell-signal-mask-not-restored', 'job-control signals left blocked in the shell: %s' % f['final_mask']))
    return pr
