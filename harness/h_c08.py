"""C08 - running commands never leaks file descriptors, in the shell or into children (see oshar.py).
Inductive formulation: from an ARBITRARY initial descriptor table (0,1,2 plus any subset of 3..5) run ONE line of the
family {1..n external stages, builtins in any position, every redirection form, here-string, capture, background} with
pipe(), dup(), open(), fork() and tcsetpgrp() allowed to fail once at any call; afterwards the shell's table must be
identical to the initial one and every child reaches execve with exactly {0,1,2}.  "Table unchanged" is its own
inductive invariant, so sequences of commands of any length are covered."""
import json
import hsupport, oshar

PROPERTY = 'C08'
BUDGET = {'quick': 900, 'thorough': 1500}
FAMILIES = ('pipe', 'redir')
ASSUMPTIONS = [
    'POSIX descriptor model (osmodel.py): lowest-free allocation, dup/dup2/close/pipe/open semantics; one injected failure per run at any pipe/dup/open/fork/tcsetpgrp call (subsumes every RLIMIT_NOFILE value for one failing call)',
    'initial table: 0,1,2 plus an arbitrary subset of {3,4,5} (solver\'s choice), so the descriptor numbers handed out vary',
    'wait_fg_job is stubbed (C06); find_file_in_path answers /bin/<name>; descriptors opened inside sqlite / lineread are outside',
    'line family: see coverage.specs; stages are external commands or the builtin `minfd`',
]
LABELS = ('shell-fd-leak', 'shell-fd-clobbered', 'shell-closed-unowned-fd', 'child-inherits-fd', 'child-closed-unowned-fd', 'pipe-failure-status-zero',
          'shell-exited', 'child-returned-into-shell-code', 'crash')

def instances(tier, seed):
    out = []
    for fam in FAMILIES:
        for spec in oshar.specs(fam, tier):
            for faults in (False, True):
                if faults and len(spec['stages']) > 3: continue
                opts = dict(faults=faults, extra_fds=(3, 4) if tier == 'quick' else (3, 4, 5), tty=True)
                out.append(dict(name='%s/%s/%s' % (fam, spec['name'], 'faults' if faults else 'nofault'), spec=spec, opts=opts, _split=4))
    return out

def run_instance(prog, inst, tier, seed, deadline):
    res = oshar.run_instance(prog, inst, tier, seed, deadline)
    res['violations'] = [v for v in res['violations'] if v['label'].split(':')[0] in LABELS or v['label'].startswith('crash')]
    return res

def replay(v): return oshar.replay(v)
def replay_file(path):
    d = json.load(open(path)); r = replay(d['violation']); print(json.dumps(r, indent=1))
    if r['reproduced']:
        print('VIOLATION property=%s replay=%s' % (PROPERTY, path)); return 1
    return 0

def finish(pid, tier, seed, results, known, wall, th, log):
    agg = hsupport.merge(results)
    hsupport.report_issues(agg, log)
    code, lines, new, nknown = hsupport.triage(pid, agg, known, lambda v: v['key'], replay, log, max_replays_per_key=6)
    for ln in lines: print(ln)
    extra = dict(specs=sorted(set(r.get('instance', '').split('#')[0] for r in results)), repo_tree=th, violating_paths=len(agg['violations']),
                 new_violations=new, known_findings_reproduced=nknown)
    hsupport.write_evidence(pid, tier, seed, agg, wall, extra, ASSUMPTIONS, new)
    log('paths=%d queries=%d solver=%.1fs violations(paths)=%d new=%d known=%d -> exit %d' % (
        agg['paths'], agg['queries'], agg['solver_s'], len(agg['violations']), new, nknown, code))
    return code
