"""C03 - command lists run left to right with correct short-circuit and status.

Encoded: execute::run_command_line and parser_line::line_to_cmds (MIR).  run_proc is a stub: it appends the pipeline
text to a trace, records the previous_status it observes ($? of C10 reads exactly that field) and returns a
CommandResult whose status is a symbolic value 0..255.  Symbolic: all statuses.  Enumerated (stated): the operator
between pipelines (3^(n-1) line shapes).  Oracle: structured reference semantics of `;`, `&&`, `||`."""
import itertools, json, os, shutil, subprocess, tempfile, time
import z3
import hsupport, hlib, explore
from engine import (lit, Ref, Agg, RString, is_sym, str_eq, b_and, UNIT)
from explore import expect, conc, Violation

PROPERTY = 'C03'
HELPERS = os.path.join(hsupport.VERIF, 'helpers/bin')
CICADA = os.path.join(hsupport.VERIF, 'build/bin/debug/cicada')
BUDGET = {'quick': 900, 'thorough': 1500}
BOUNDS = {'quick': dict(max_n=4), 'thorough': dict(max_n=6)}
ASSUMPTIONS = [
    'bounded: lines of 1..max_n pipelines; every operator sequence over {;, &&, ||} is enumerated, statuses are symbolic (0..255 each)',
    'stub execute::run_proc: returns an arbitrary status, records the line segment it was given and the previous_status it observes; pipeline execution itself is covered by C02',
    'the two-line wiring in main.rs (process::exit(sh.previous_status)) is exercised by the binary replay only',
]
OPS = {';': ';', '&&': '&&', '||': '||'}

def instances(tier, seed):
    out = []
    for n in range(1, BOUNDS[tier]['max_n'] + 1):
        for ops in itertools.product([';', '&&', '||'], repeat=n - 1):
            for spaced in ((True, False) if n <= 3 else (True,)):
                out.append(dict(name='%d:%s:%s' % (n, ','.join(ops), 'sp' if spaced else 'tight'), n=n, ops=list(ops), spaced=spaced))
    return out

def line_of(inst, codes=None):
    parts = []
    for i in range(inst['n']):
        parts.append('st c%d %s' % (i, codes[i] if codes else '0'))
        if i < inst['n'] - 1:
            op = inst['ops'][i]
            parts.append((' %s ' % op) if inst['spaced'] else op)
    return ''.join(parts)

def reference(I, inst, st):
    """(indices executed, final status term).  status starts at 0"""
    trace = []; status = 0
    for i in range(inst['n']):
        if i > 0:
            op = inst['ops'][i - 1]
            if op == '&&' and hlib.truthy(I, status != 0): continue
            if op == '||' and hlib.truthy(I, status == 0): continue
        trace.append(i); status = st[i]
    return trace, status

def body(inst):
    def h(I):
        p = I.prog
        n = inst['n']
        st = [I.sym_int('s%d' % i, 32, 0, 255) for i in range(n)]
        sh = hlib.mk_shell(I, previous_status=I.sym_int('prev', 32, 0, 255))
        cell = [sh]
        trace = []
        def run_proc_stub(I_, a, callee):
            shv = I.deref(a[0]); seg = I.str_of(a[1])
            txt = ''.join(chr(c) for c in seg)
            idx = None
            for i in range(n):
                if txt.strip() == 'st c%d 0' % i: idx = i
            trace.append((idx, txt, hlib.field(p, shv, 'previous_status')))
            status = st[idx] if idx is not None else 0
            return hlib.mk_struct(p, 'CommandResult', gid=0, status=status, stdout=RString(), stderr=RString())
        I.stubs['run_proc'] = run_proc_stub
        r = I.call_fn('run_command_line', [lit(line_of(inst)), Ref(cell, 0), False, False][0:1] + [] ) if False else \
            I.call_fn('run_command_line', [Ref(cell, 0), lit(line_of(inst)), False, False])
        ref_trace, ref_status = reference(I, inst, st)
        got = [t[0] for t in trace]
        I.h_obs = dict(trace=got, texts=[t[1] for t in trace])
        expect(I, got == ref_trace, 'trace', dict(got=got, want=ref_trace))
        # $? seen by each executed pipeline is the status of the most recently executed one
        prev = hlib.field(p, sh, 'previous_status')   # after the run; initial value was `prev`
        last = I.ctx.bv('prev', 32)
        for k, (idx, txt, seen) in enumerate(trace):
            expect(I, seen == last if is_sym(seen) or is_sym(last) else seen == last, 'dollar-question', dict(position=k))
            last = st[idx]
        if trace:
            expect(I, hlib.field(p, sh, 'previous_status') == last, 'final-status', None)
        expect(I, len(I.list_of(r)) == len(trace), 'result-count', None)
        return I.h_obs
    return h

def binary_run(inst, codes):
    d = tempfile.mkdtemp(prefix='cicada-verif-c03-')
    try:
        out = os.path.join(d, 'argv.jsonl')
        line = line_of(inst, codes)
        # natively every pipeline also receives `$?` as a third argument, so the status each one SEES is observable
        import re as _re
        line = _re.sub(r'(st c\d+ \d+)', r'\1 $?', line)
        env = {'HOME': '/home/u', 'PATH': HELPERS, 'ARGV_OUT': out, 'LANG': 'C.UTF-8'}
        try:
            p = subprocess.run([CICADA, '-c', line], cwd=d, env=env, stdin=subprocess.DEVNULL, stdout=subprocess.PIPE, stderr=subprocess.PIPE, timeout=20)
        except subprocess.TimeoutExpired:
            return dict(line=line, hang=True)
        recs = [json.loads(x) for x in open(out)] if os.path.exists(out) else []
        got = [int(r['argv'][1][1:]) for r in recs if r['name'] == 'st']
        seen = [int(r['argv'][3]) if len(r['argv']) > 3 and r['argv'][3].isdigit() else None for r in recs if r['name'] == 'st']
        return dict(line=line, trace=got, seen=seen, exit=p.returncode)
    finally:
        shutil.rmtree(d, ignore_errors=True)

def ref_concrete(inst, codes):
    trace = []; status = 0
    for i in range(inst['n']):
        if i > 0:
            op = inst['ops'][i - 1]
            if op == '&&' and status != 0: continue
            if op == '||' and status == 0: continue
        trace.append(i); status = codes[i]
    return trace, status

def replay(v):
    inst = v['inst']; codes = v['codes']
    r = binary_run(inst, codes)
    want_trace, want_status = ref_concrete(inst, codes)
    r['expected_trace'] = want_trace; r['expected_exit'] = want_status
    want_seen = [0] + [codes[i] for i in want_trace[:-1]]
    r['expected_seen'] = want_seen
    r['reproduced'] = bool(r.get('hang')) or r.get('trace') != want_trace or r.get('exit') != want_status or (r.get('trace') == want_trace and r.get('seen') != want_seen)
    r['witness'] = r['line']
    return r

def run_instance(prog, inst, tier, seed, deadline):
    def codes_of(inputs): return [inputs['s%d' % i] for i in range(inst['n'])]
    def on_ok(l, I):
        # translation validation: the same statuses through the real binary
        if (hash(inst['name']) + l.decisions) % 4 != seed % 4 and tier == 'thorough': return None
        codes = codes_of(l.inputs)
        r = binary_run(inst, codes)
        want = conc(l.model, I.h_obs)['trace']
        if r.get('trace') != want:
            return ('mismatch', dict(line=r['line'], symbolic=want, native=r.get('trace')))
        return ('validated', 1)
    def on_violation(l, I):
        inputs = explore.model_inputs(I.ctx, l.model)
        codes = codes_of(inputs)
        zp = ''.join('0' if c == 0 else 'n' for c in codes)
        return dict(label=l.msg, inst=inst, codes=codes, detail=l.payload, observed=conc(l.model, getattr(I, 'h_obs', None)),
                    key='%s:%s:%s' % (l.msg, ','.join(inst['ops']), zp))
    def on_panic(l, I):
        codes = codes_of(l.inputs)
        return dict(label='crash:' + str(l.msg), inst=inst, codes=codes, key='crash:%s' % ','.join(inst['ops']))
    return hsupport.run_paths(prog, body(inst), deadline, on_ok=on_ok, on_violation=on_violation, on_panic=on_panic)

def replay_file(path):
    d = json.load(open(path))
    r = replay(d['violation'])
    print(json.dumps(r, indent=1))
    if r['reproduced']:
        print('VIOLATION property=%s replay=%s' % (PROPERTY, path)); return 1
    return 0

def finish(pid, tier, seed, results, known, wall, th, log):
    agg = hsupport.merge(results)
    hsupport.report_issues(agg, log)
    code, lines, new, nknown = hsupport.triage(pid, agg, known, lambda v: v['key'], replay, log)
    for ln in lines: print(ln)
    extra = dict(bounds=BOUNDS[tier], repo_tree=th, line_shapes=len(results), violating_paths=len(agg['violations']), new_violations=new,
                 known_findings_reproduced=nknown)
    hsupport.write_evidence(pid, tier, seed, agg, wall, extra, ASSUMPTIONS, new)
    log('paths=%d queries=%d solver=%.1fs validated=%d violations(paths)=%d new=%d known=%d -> exit %d' % (
        agg['paths'], agg['queries'], agg['solver_s'], agg['validated'], len(agg['violations']), new, nknown, code))
    return code
