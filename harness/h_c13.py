"""C13 - results of expansions are data and are never re-read as shell syntax.

Encoded (MIR): CommandLine::from_line end to end (parse_line, do_expansion with all passes, drain_env_tokens,
background / pipe / `<` detection, tokens_to_redirections).  The three channels deliver a symbolic text:
 env     - $X / ${X} with the value of X symbolic
 capture - $(out ..) / `out ..` with the capture stub's stdout symbolic
 glob    - `*` with the glob stub returning one path whose name is symbolic
Oracle: exactly one command, not background, no redirection, no drained env, program word and fixed neighbour
arguments unchanged, the produced text is exactly one argument (double-quoted: always; unquoted: cicada does not
field-split, so the same)."""
import itertools, json, os, shutil, tempfile
import z3
import hsupport, hlib, explore, models_env, native as nativemod
from engine import (lit, Ref, Agg, RString, RVec, is_sym, str_eq, ch_eq, b_and, b_or)
from explore import expect, conc, Violation

PROPERTY = 'C13'
HELPERS = os.path.join(hsupport.VERIF, 'helpers/bin')
BUDGET = {'quick': 900, 'thorough': 1500}
BOUNDS = {'quick': dict(val_len=3), 'thorough': dict(val_len=4)}
ASSUMPTIONS = [
    'bounded: produced text of 1..val_len characters; characters are arbitrary scalars except NUL/newline and except the characters that legitimately trigger a *later expansion* of unquoted text (* ? [ ] { } ~ $ ` \\ and quotes) - the property is about operators (| & ; < > # and digits before them), which are all included',
    'channels: env::var stub (X symbolic, other names unset), run_pipeline capture stub (symbolic stdout), glob stub (one path with a symbolic name)',
    'cicada performs no field splitting of unquoted expansions; the oracle therefore expects one argument in the unquoted case too',
]
VAL_EXCLUDE = '*?[]{}~$`\\\'"'
FORMS = {
    'env':      ['prog $X', 'prog ${X}', 'prog a $X', 'prog $X b', 'prog "$X"', 'prog a "$X" b', 'prog "${X}"'],
    'capture':  ['prog $(out 00)', 'prog a $(out 00)', 'prog $(out 00) b', 'prog "$(out 00)"', 'prog `out 00`', 'prog "`out 00`" b'],
    'glob':     ['prog *', 'prog a *', 'prog * b'],
}

def instances(tier, seed):
    out = []
    for ch, forms in FORMS.items():
        for f in forms:
            for n in range(1, BOUNDS[tier]['val_len'] + 1):
                out.append(dict(name='%s/%s/%d' % (ch, f.replace(' ', '_').replace('/', '-'), n), channel=ch, form=f, n=n))
    out.sort(key=lambda i: -i['n'])
    return out

def split_form(form):
    """-> (args before, quoted?, args after); the expansion word may contain blanks (`$(out 00)`)"""
    import re
    m = re.search(r'"?(\$\(out 00\)|`out 00`|\$\{X\}|\$X|\*)"?', form)
    before = form[:m.start()].split()[1:]
    after = form[m.end():].split()
    return before, form[m.start()] == '"', after

def body(inst):
    def h(I):
        p = I.prog
        n = inst['n']
        val = [I.sym_char('v%d' % i, exclude=VAL_EXCLUDE + ('/.' if inst['channel'] == 'glob' else '')) for i in range(n)]
        I.h_val = val
        I.env = models_env.Env(I, {'HOME': '/home/u', 'PATH': HELPERS}, unknown='unset')
        I.env.vars.append([lit('X'), tuple(val)])
        I.env.glob_handler = lambda I_, pat: [tuple(val)] if inst['channel'] == 'glob' else []
        ncalls = [0]
        def run_pipeline_stub(I_, a, callee):
            ncalls[0] += 1
            cr = hlib.mk_struct(p, 'CommandResult', gid=0, status=0, stdout=RString(val if ncalls[0] == 1 else []), stderr=RString())
            return Agg(None, [False, cr])
        I.stubs['run_pipeline'] = run_pipeline_stub
        cell = [hlib.mk_shell(I)]
        r = I.call_fn('types::CommandLine::from_line', [lit(inst['form']), Ref(cell, 0)])
        before, quoted, after = split_form(inst['form'])
        if r.tag != 'Ok':
            I.h_plan = {'Err': I.str_of(r.f[0])}
            raise Violation('rejected', I.ctx.current_model(), None)
        plan = hlib.plan_of(I, r.f[0]); I.h_plan = plan
        conds = [('command-count', len(plan['commands']) == 1)]
        if len(plan['commands']) == 1:
            c = plan['commands'][0]
            conds += [('background', plan['background'] is False), ('env-drained', len(plan['envs']) == 0),
                      ('redirect-to', len(c['redirects_to']) == 0), ('redirect-from', c['redirect_from'] is None)]
            want = [lit('prog')] + [lit(w) for w in before] + [tuple(val)] + [lit(w) for w in after]
            toks = [t[1] for t in c['tokens']]
            # capture output has leading/trailing blanks preserved; an all-blank unquoted value may legitimately vanish? no: one argument
            conds.append(('argc', len(toks) == len(want)))
            if len(toks) == len(want):
                for i, (t, w) in enumerate(zip(toks, want)):
                    conds.append(('argv', str_eq(tuple(t), tuple(w))))
        found = []
        allc = b_and(*[c_ for _, c_ in conds])
        for _ in range(5):
            m = I.ctx.violates(allc)
            if m is None: break
            label = None
            for lb, c_ in conds:
                if c_ is False or (c_ is not True and z3.is_false(m.eval(c_, model_completion=True))):
                    label = lb; break
            found.append((label, m))
            # look for a violation with a different set of operator characters
            import linegen as lg
            try:
                I.ctx.assume(z3.Or(*[lg.class_id(c_) != m.eval(lg.class_id(c_), model_completion=True) for c_ in val]))
            except Exception:
                break
        if found:
            raise Violation(found[0][0], found[0][1], detail=found)
        return plan
    return h

OPS = '|&;<>#'
def concrete_line(inst, val):
    if inst['channel'] == 'capture':
        return inst['form'].replace('out 00', 'out ' + val.encode('utf-8').hex())
    return inst['form']

def native_plan(inst, val):
    d = tempfile.mkdtemp(prefix='cicada-verif-c13-')
    nat = nativemod.Native(cwd=d, env={'HOME': '/home/u', 'PATH': HELPERS, 'LANG': 'C.UTF-8'}, timeout=6)
    try:
        if inst['channel'] == 'glob':
            import h_c01
            if not h_c01.ok_filename(val): return dict(skip=True)
            h_c01.make_files(d, [val])
        try:
            r = nat.call('from_line', 'env:X=' + val, concrete_line(inst, val))
        except nativemod.NativeHang:
            return dict(outcome='hang')
        return r
    finally:
        nat.close(); shutil.rmtree(d, ignore_errors=True)

def concrete_label(inst, val, r):
    before, quoted, after = split_form(inst['form'])
    if 'skip' in r: return None
    if 'outcome' in r: return r['outcome']
    if 'panic' in r or 'crash' in r: return 'crash'
    if 'Err' in r: return 'rejected'
    cmds, envs, bg = r['Ok']
    if len(cmds) != 1: return 'command-count'
    if bg: return 'background'
    if envs: return 'env-drained'
    if cmds[0][1]: return 'redirect-to'
    if cmds[0][2] is not None: return 'redirect-from'
    toks = [t[1] for t in cmds[0][0]]
    want = ['prog'] + before + [val] + after
    if inst['channel'] == 'capture': want = ['prog'] + before + [val.rstrip('\n')] + after
    if toks != want: return 'argv'
    return None

def key_of(inst, val, label):
    before, quoted, after = split_form(inst['form'])
    ops = ''.join(sorted(set(ch for ch in val if ch in OPS)))
    pos = 'last' if not after else 'inner'
    extra = ''
    if not ops:
        extra = 'blank' if any(ch.isspace() for ch in val) else ('digit' if any(ch.isdigit() for ch in val) else ('eq' if '=' in val else 'other'))
    kind = 'argv' if label in ('argv', 'argc') else label
    if not quoted:
        # one root cause (operators are recognised after expansion), keyed per channel; a matched file name containing a blank
        # is protected by cicada (it is re-tagged with double quotes), so that case has its own key and is not a known finding
        # the whole-word backquote form carries the tag "`" (not the empty tag): the checks that honour tags (trailing `&`) must
        # leave it alone, so it is keyed separately from `$(..)` (seed C13-4 hid behind the shared capture key)
        chan = 'capture-bq' if inst['channel'] == 'capture' and '`' in inst['form'] else inst['channel']
        return 'unquoted-result-reread:%s:%s%s' % (kind, chan, ':blank' if inst['channel'] == 'glob' and ' ' in val else '')
    return '%s:%s:%s:%s:{%s}%s' % (kind, inst['channel'], 'dq', pos, ops, extra)

def run_instance(prog, inst, tier, seed, deadline):
    S = explore.chars_to_str
    def on_ok(l, I):
        val = S(l.model, I.h_val)
        r = native_plan(inst, val)
        lb = concrete_label(inst, val, r)
        if lb is not None: return ('mismatch', dict(line=concrete_line(inst, val), value=val, symbolic='holds', native=lb))
        return ('validated', 1)
    def on_violation(l, I):
        recs = []
        for label, m in (l.payload or [(l.msg, l.model)]):
            val = S(m, I.h_val)
            r = native_plan(inst, val)
            nl = concrete_label(inst, val, r)
            recs.append(dict(label=label, inst=inst, value=val, line=concrete_line(inst, val), native_label=nl,
                             key=key_of(inst, val, nl) if nl else 'unreproduced:%s:%s' % (inst['name'], label),
                             observed=conc(m, I.h_plan)))
        first = recs[0]; first['more'] = recs[1:]
        return first
    def on_panic(l, I):
        val = S(l.model, I.h_val)
        return dict(label='crash', inst=inst, value=val, line=concrete_line(inst, val), key='crash:%s:%s' % (inst['channel'], str(l.msg)[:40]))
    res = hsupport.run_paths(prog, body(inst), deadline, on_ok=on_ok, on_violation=on_violation, on_panic=on_panic, step_budget=400_000)
    flat = []
    for v in res['violations']:
        more = v.pop('more', []); flat.append(v); flat.extend(more)
    res['violations'] = flat
    return res

def replay(v):
    r = native_plan(v['inst'], v['value'])
    lb = concrete_label(v['inst'], v['value'], r)
    return dict(witness=dict(line=v['line'], produced_text=v['value'], channel=v['inst']['channel']), native=r, failing=lb, reproduced=lb is not None)

def replay_file(path):
    d = json.load(open(path))
    r = replay(d['violation'])
    print(json.dumps(r, indent=1, ensure_ascii=False))
    if r['reproduced']:
        print('VIOLATION property=%s replay=%s' % (PROPERTY, path)); return 1
    return 0

def finish(pid, tier, seed, results, known, wall, th, log):
    agg = hsupport.merge(results)
    hsupport.report_issues(agg, log)
    code, lines, new, nknown = hsupport.triage(pid, agg, known, lambda v: v['key'], replay, log)
    for ln in lines: print(ln)
    extra = dict(bounds=BOUNDS[tier], repo_tree=th, violating_paths=len(agg['violations']), new_violations=new, known_findings_reproduced=nknown,
                 distinct_violation_keys=len(set(v['key'] for v in agg['violations'])))
    hsupport.write_evidence(pid, tier, seed, agg, wall, extra, ASSUMPTIONS, new)
    log('paths=%d queries=%d solver=%.1fs validated=%d violations(paths)=%d new=%d known=%d -> exit %d' % (
        agg['paths'], agg['queries'], agg['solver_s'], agg['validated'], len(agg['violations']), new, nknown, code))
    return code
