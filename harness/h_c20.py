"""C20 - what TAB inserts for a file name is read back as exactly that file (in-process companion of the pty statement).

Encoded (MIR): completers::escaped_word_start, completers::path::{complete_path, split_pathname, is_env_prefix,
needs_expand_home}, completers::utils::{expand_home_string, expand_env_string}, tools::{escape_path, wrap_sep_string},
parser_line::parse_line, and - for reading the text back - CommandLine::from_line with every expansion pass.
The directory is a stub: read_dir answers with the entry under test (symbolic name) and a second entry; the line editor
(lineread) is modelled by its documented contract: the text from word_start to the cursor is replaced by the completion,
followed by the suffix (blank for a file, `/` for a directory).  Oracle: after Enter the program receives exactly the
entry's name; the candidates are exactly the entries starting with the typed prefix (directories only for cd)."""
import itertools, json, os, shutil, subprocess, tempfile
import z3
import hsupport, hlib, explore, models_env
import native as nativemod
from models import ListIter
from engine import (lit, Ref, Agg, RString, RVec, Slice, is_sym, str_eq, b_and, OK, ERR, TUP, Opaque, NONE, SOME)
from explore import expect, conc, Violation

PROPERTY = 'C20'
BUDGET = {'quick': 900, 'thorough': 1500}
BOUNDS = {'quick': dict(n=2), 'thorough': dict(n=3)}
ASSUMPTIONS = [
    'entry names: a typed prefix `f` followed by n fully symbolic characters (every scalar except `/` and NUL), so every special character appears in the completed part; the typed prefix itself is plain (a user types special prefix characters already escaped - that is escaped_word_start\'s domain, C05)',
    'three contexts (unquoted, open single quote, open double quote) x {file, directory} x {command `prog`, `cd`} x {current directory, `sub/`, a directory part with a blank typed as `a\\ b/` (unquoted) or `a b/` (quoted), a directory part with `$` inside single quotes, a directory part `a"b c` spelled with `\\"` (what an earlier TAB inserts)}',
    'lineread is modelled by its contract (replace [word_start, cursor) by the completion, append blank or `/`); for a directory completed inside quotes the user closes the quote before Enter; the pty, key handling and display are outside',
    'read_dir / is_dir are stubs: the entry under test plus one entry that does not start with the prefix and one directory',
    'reading back: from_line with env stub (no variables set), glob stub: pattern-respecting adversarial directory (a pattern containing `*` also matches the name with the stars removed)',
]

def instances(tier, seed):
    out = []
    for ctx in ('unq', 'sq', 'dq'):
        for kind in ('file', 'dir'):
            for cmd in ('prog', 'cd'):
                for sub in ('', 'sub', 'a b', 'd$x', 'a"b c'):
                    if cmd == 'cd' and kind == 'file' and sub: continue
                    if sub in ('a b', 'd$x', 'a"b c') and cmd == 'cd': continue
                    if sub == 'd$x' and ctx != 'sq': continue          # `$` cannot be spelled unquoted / in double quotes (known findings)
                    out.append(dict(name='%s/%s/%s%s' % (ctx, kind, cmd, '/' + sub.replace(' ', '_') if sub else ''), ctx=ctx, kind=kind, cmd=cmd, sub=sub, _split=5))
    return out

def install(I, name, kind, sub):
    I.env = models_env.Env(I, {'HOME': '/home/u', 'PATH': '/bin'}, unknown='unset')
    entries = [(tuple(name), kind == 'dir'), (lit('zother'), False), (lit('dd'), True)]
    def gl(I_, pat):
        return [tuple(pat)]
    def glob_h(I_, pat):
        # adversarial but pattern-respecting directory: besides the entry itself there is the name with every `*` removed
        stars = [hlib.truthy(I, ch == 42) if is_sym(ch) else ch == 42 for ch in pat]
        if not any(stars): return []
        return [tuple(ch for ch, st in zip(pat, stars) if not st), tuple(pat)]
    I.env.glob_handler = glob_h
    def read_dir(I_, a, c):
        d = I.deref(a[0]); d = tuple(d.data) if isinstance(d, Opaque) else I.str_of(d)
        ds = ''.join(chr(x) for x in d)
        I.h_lookups.append(ds)
        if ds not in ((sub + '/',) if sub else ('.',)): return ERR(Opaque('io::Error'))
        base = lit(sub + '/') if sub else ()
        return OK(ListIter([OK(Opaque('DirEntry', dict(name=n_, is_dir=isd, path=tuple(base) + tuple(n_)))) for n_, isd in entries]))
    I.stubs['read_dir'] = read_dir; I.stubs['fs::read_dir'] = read_dir; I.stubs['std::fs::read_dir'] = read_dir
    I.stubs['DirEntry::path'] = lambda I_, a, c: Opaque('PathBuf', I.deref(a[0]).data)
    I.stubs['DirEntry::file_name'] = lambda I_, a, c: Opaque('OsString', tuple(I.deref(a[0]).data['name']))
    def is_dir(I_, path, which):
        return None
    def pathbuf_is_dir(I_, a, c):
        o = I.deref(a[0])
        if isinstance(o.data, dict): return o.data['is_dir']
        return False
    I.stubs['Path::is_dir'] = pathbuf_is_dir
    I.env.exists_handler = lambda I_, path, which: False
    # reading the line back may find a command substitution in it (a name containing a backquote pair): the command's
    # output is an arbitrary text, here one fixed character - the name is then no longer what the program receives
    def rp_stub(I_, a, c):
        cr = hlib.mk_struct(I.prog, 'CommandResult', gid=0, status=0, stdout=RString(lit('X')), stderr=RString())
        return Agg(None, [False, cr])
    I.stubs['run_pipeline'] = rp_stub; I.stubs['core::run_pipeline'] = rp_stub

def body(inst, b):
    def h(I):
        p = I.prog
        n = b['n']
        name = [ord('f')] + [I.sym_char('c%d' % i, exclude='/\x00') for i in range(n)]
        I.h_name = tuple(name); I.h_lookups = []
        install(I, name, inst['kind'], inst['sub'])
        q = {'unq': '', 'sq': "'", 'dq': '"'}[inst['ctx']]
        sub = inst['sub']
        # the directory part as a user (or an earlier TAB) spells it in this context
        if inst['ctx'] == 'unq': tdir = sub.replace('"', '\\"').replace(' ', '\\ ')
        elif inst['ctx'] == 'dq': tdir = sub.replace('"', '\\"')
        else: tdir = sub
        typed_dir = tdir + '/' if sub else ''
        typed = list(lit(inst['cmd'] + ' ' + q + typed_dir + 'f'))
        I.h_typed = tuple(typed)
        start = I.call_fn('completers::escaped_word_start', [tuple(typed)])
        start = I.concretize(start)
        word = typed[start:]
        comps = I.call_fn('completers::path::complete_path', [tuple(word), inst['cmd'] == 'cd'])
        cl = [I.deref(x) for x in I.list_of(comps)]
        texts = [I.str_of(hlib.field(p, c, 'completion')) for c in cl]
        I.h_comps = texts
        offered = inst['kind'] == 'dir' or inst['cmd'] != 'cd'
        expect(I, len(texts) == (1 if offered else 0), 'candidates', dict(offered=texts, lookups=I.h_lookups))
        if not offered: return dict(comps=texts)
        comp = list(texts[0])
        if inst['kind'] == 'file': final = typed[:start] + comp + [32]
        else: final = typed[:start] + comp + [ord('/')] + list(lit(q))
        I.h_final = tuple(final)
        # ---- Enter: the line is read back
        sh = hlib.mk_shell(I); cell = [sh]
        r = I.call_fn('types::CommandLine::from_line', [tuple(final), Ref(cell, 0)])
        expect(I, r.tag == 'Ok', 'completed-line-rejected', dict(final=tuple(final)))
        plan = hlib.plan_of(I, r.f[0])
        I.h_plan = plan
        want = tuple(lit(sub + '/') if sub else ()) + tuple(name) + (tuple(lit('/')) if inst['kind'] == 'dir' else ())
        ok = len(plan['commands']) == 1 and not plan['background'] and not plan['commands'][0]['redirects_to'] and plan['commands'][0]['redirect_from'] is None
        expect(I, ok, 'completed-name-read-as-syntax', dict(final=tuple(final), plan=plan))
        argv = [t[1] for t in plan['commands'][0]['tokens']]
        expect(I, len(argv) == 2, 'completed-name-word-count', dict(final=tuple(final), argv=argv))
        got = argv[1]
        expect(I, str_eq(tuple(got), want) if len(got) == len(want) else False, 'completed-name-differs', dict(final=tuple(final), got=tuple(got), want=want))
        return dict(final=tuple(final))
    return h

# ---- native: real directory, real complete_path / escaped_word_start / from_line -----------------------------------
def native_roundtrip(v):
    name = v['name']
    if '/' in name or '\x00' in name or name in ('.', '..'): return dict(skipped='not a file name')
    d = tempfile.mkdtemp(prefix='cicada-verif-c20-')
    try:
        base = os.path.join(d, v['sub']) if v['sub'] else d
        os.makedirs(base, exist_ok=True)
        try:
            extra = [(name.replace('*', ''), False)] if '*' in name and name.replace('*', '') not in ('', name) else []
            for nm, isd in [(name, v['kind'] == 'dir'), ('zother', False), ('dd', True)] + extra:
                pth = os.path.join(base, nm)
                if isd: os.makedirs(pth, exist_ok=True)
                else: open(pth, 'w').close()
        except (OSError, UnicodeEncodeError, ValueError): return dict(skipped='name not creatable')
        nat = nativemod.Native(cwd=d, timeout=8, env={'PATH': '/usr/bin', 'HOME': '/home/u'})
        try:
            typed = v['typed']
            start = int(nat.call('escaped_word_start', typed))
            bs = typed.encode('utf-8')[:start].decode('utf-8', 'replace')
            word = typed.encode('utf-8')[start:].decode('utf-8', 'replace')
            comps = nat.call('complete_path', word, '1' if v['cmd'] == 'cd' else '0')
            out = dict(typed=typed, word_start=start, candidates=comps)
            offered = v['kind'] == 'dir' or v['cmd'] != 'cd'
            if extra: comps = [c_ for c_ in comps if c_ in v.get('comps', [])] or comps
            if len(comps) != (1 if offered else 0):
                out['reproduced'] = True; out['problem'] = 'candidates'; return out
            if not offered:
                out['reproduced'] = False; return out
            q = {'unq': '', 'sq': "'", 'dq': '"'}[v['ctx']]
            final = bs + comps[0] + (' ' if v['kind'] == 'file' else '/' + q)
            r = nat.call('from_line', final)
            out.update(final=final, read_back=r)
            want = (v['sub'] + '/' if v['sub'] else '') + name + ('/' if v['kind'] == 'dir' else '')
            ok = isinstance(r, dict) and 'Ok' in r and len(r['Ok'][0]) == 1 and not r['Ok'][2] and not r['Ok'][0][0][1] and r['Ok'][0][0][2] is None \
                and [t[1] for t in r['Ok'][0][0][0]] == [v['cmd'], want]
            out['expected_argv'] = [v['cmd'], want]; out['reproduced'] = not ok
            return out
        except nativemod.NativeHang:
            return dict(hang=True, reproduced=True)
        finally:
            nat.close()
    finally:
        shutil.rmtree(d, ignore_errors=True)

SPECIAL = '!()<>,?[]{} \\\'"`*^#|$&;~=%:@+-'
def run_instance(prog, inst, tier, seed, deadline):
    b = BOUNDS[tier]
    S = explore.chars_to_str
    def rec(l, I):
        m = l.model
        return dict(ctx=inst['ctx'], kind=inst['kind'], cmd=inst['cmd'], sub=inst['sub'], instance=inst['name'], name=S(m, I.h_name), typed=S(m, I.h_typed),
                    final=S(m, getattr(I, 'h_final', ())), comps=[S(m, c) for c in getattr(I, 'h_comps', [])])
    def on_violation(l, I):
        r = rec(l, I); r['label'] = l.msg; r['detail'] = conc(l.model, l.payload)
        nm = r['name'][1:]
        # root causes first: what the open quote / the escape cannot represent for the tokenizer that reads the line back
        root = None
        if inst['ctx'] == 'sq' and "'" in nm: root = "'"
        elif inst['ctx'] == 'dq':
            for ch in '\\$`"':
                if ch in nm: root = ch; break
        elif inst['ctx'] == 'unq' and '*' in nm and l.msg == 'completed-name-word-count': root = '*'
        elif inst['ctx'] == 'unq' and '$' in nm: root = '$'
        if root is None:
            trig = [ch for ch in nm if ch in SPECIAL or ord(ch) < 32 or ch.isspace()]
            root = trig[0] if trig else ('non-ascii' if any(ord(ch) > 127 for ch in nm) else 'plain')
            if root not in SPECIAL and root not in ('non-ascii', 'plain'): root = 'control:%04x' % ord(root) if ord(root) < 32 else 'unicode-space'
        r['key'] = '%s:{%s}' % (inst['ctx'], root)
        return r
    def on_ok(l, I):
        if (l.decisions + seed) % 3: return None
        r = rec(l, I)
        if any(ord(c) < 32 for c in r['name']): return None
        n = native_roundtrip(r)
        if n.get('skipped'): return None
        if n.get('reproduced'): return ('mismatch', dict(r, native=n))
        return ('validated', 1)
    def on_panic(l, I):
        r = rec(l, I) if hasattr(I, 'h_name') else {}
        r.update(label='crash', key='crash:%s' % str(l.msg)[:40]); return r
    return hsupport.run_paths(prog, body(inst, b), deadline, on_ok=on_ok, on_violation=on_violation, on_panic=on_panic, step_budget=1_500_000,
                              prefix=inst.get('_prefix'), split_depth=inst.get('_split'))

def replay(v):
    if v.get('label') == 'crash' and 'name' not in v: return dict(reproduced=None)
    r = native_roundtrip(v)
    r.setdefault('reproduced', None)
    r['witness'] = dict(entry=v['name'], typed=v['typed'])
    return r

def replay_file(path):
    d = json.load(open(path)); r = replay(d['violation']); print(json.dumps(r, indent=1, default=str))
    if r.get('reproduced'):
        print('VIOLATION property=%s replay=%s' % (PROPERTY, path)); return 1
    return 0

def finish(pid, tier, seed, results, known, wall, th, log):
    agg = hsupport.merge(results)
    hsupport.report_issues(agg, log)
    code, lines, new, nknown = hsupport.triage(pid, agg, known, lambda v: v['key'], replay, log, max_replays_per_key=6)
    for ln in lines: print(ln)
    extra = dict(bounds=BOUNDS[tier], instances=len(results), repo_tree=th, violating_paths=len(agg['violations']), new_violations=new, known_findings_reproduced=nknown)
    hsupport.write_evidence(pid, tier, seed, agg, wall, extra, ASSUMPTIONS, new)
    log('paths=%d queries=%d solver=%.1fs validated=%d violations(paths)=%d new=%d known=%d -> exit %d' % (
        agg['paths'], agg['queries'], agg['solver_s'], agg['validated'], len(agg['violations']), new, nknown, code))
    return code
