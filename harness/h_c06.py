"""C06 - the job table tracks exactly the live jobs under every order of child events.

Encoded (MIR): Shell::{insert_job, remove_pid_from_job, mark_job_member_stopped, mark_job_member_continued,
mark_job_as_running, mark_job_as_stopped, get_job_by_gid}, Job::{all_members_stopped, all_members_running},
jobc::{wait_fg_job, waitpidx, try_wait_bg_jobs, mark_job_as_done, mark_job_member_*}, signals::{handle_sigchld and the
eight map accessors} (lazy_static maps as ordinary maps), types::WaitStatus.
The kernel is the stub behind nix::sys::wait::waitpid: at every call the solver picks the next event (which live
process, which admissible kind, which status) or "nothing yet" for a non-blocking call.  Process ids are symbolic,
pairwise distinct, with NO ordering assumed.
Oracle: the obvious abstract table (live processes per job, stopped set)."""
import itertools, json, os
import z3
import hsupport, hlib, explore, models_env, models_os, native as nativemod
from engine import (lit, Ref, Agg, RString, RVec, Slice, is_sym, str_eq, b_and, b_or, EndPath, OK, ERR)
from explore import expect, conc, Violation

PROPERTY = 'C06'
BUDGET = {'quick': 900, 'thorough': 1500}
BOUNDS = {'quick': dict(max_events=3), 'thorough': dict(max_events=4)}
ASSUMPTIONS = [
    'bounded: the scenarios listed in coverage.scenarios (<= 2 jobs of <= 2 processes in quick, <= 3 jobs / <= 3 processes in thorough) with at most max_events kernel events (one more for single-job, one less for >= 3-process scenarios); paths that would need more events are cut (counted)',
    'kernel contract of the waitpid stub: events only for live children; stop only of a running, continue only of a stopped process; exit/kill final; a blocking wait returns ECHILD only when no child is left; a non-blocking wait may always answer "nothing yet"',
    'process ids are arbitrary distinct positive i32 values (no monotonicity), exit statuses 0..255, signals from {SIGINT, SIGKILL, SIGTERM}',
    'stubs: libc::getpgid returns the true group; log!/println are ignored; the lazy_static Mutex maps are plain maps (single thread: the signal handler is driven synchronously, CICADA_ENABLE_SIG_HANDLER=0 path)',
    'the table is compared with the abstract model after the prompt-time poll (try_wait_bg_jobs), where parked events have been applied',
]

# scenario = list of steps: ('launch', job index, bg) | ('wait', job index) | ('poll',)
def scenarios(tier):
    sc = []
    def S(name, jobs, steps): sc.append(dict(name=name, jobs=jobs, steps=steps))
    S('fg1', [1], [('launch', 0, False), ('wait', 0), ('poll',)])
    S('fg2', [2], [('launch', 0, False), ('wait', 0), ('poll',)])
    S('bg1', [1], [('launch', 0, True), ('poll',), ('poll',)])
    S('bg2', [2], [('launch', 0, True), ('poll',), ('poll',)])
    S('bg1+fg1', [1, 1], [('launch', 0, True), ('launch', 1, False), ('wait', 1), ('poll',)])
    S('bg2+fg1', [2, 1], [('launch', 0, True), ('launch', 1, False), ('wait', 1), ('poll',)])
    S('bg1+fg2', [1, 2], [('launch', 0, True), ('launch', 1, False), ('wait', 1), ('poll',)])
    S('fg1;fg1', [1, 1], [('launch', 0, False), ('wait', 0), ('poll',), ('launch', 1, False), ('wait', 1), ('poll',)])
    S('bg1;bg1', [1, 1], [('launch', 0, True), ('poll',), ('launch', 1, True), ('poll',), ('poll',)])
    if tier == 'thorough':
        S('fg3', [3], [('launch', 0, False), ('wait', 0), ('poll',)])
        S('bg3', [3], [('launch', 0, True), ('poll',), ('poll',)])
        S('bg2+fg2', [2, 2], [('launch', 0, True), ('launch', 1, False), ('wait', 1), ('poll',)])
        S('bg1+bg1+fg1', [1, 1, 1], [('launch', 0, True), ('launch', 1, True), ('launch', 2, False), ('wait', 2), ('poll',)])
        S('bg2;fg2', [2, 2], [('launch', 0, True), ('poll',), ('launch', 1, False), ('wait', 1), ('poll',)])
    return sc

def instances(tier, seed):
    out = []
    for s in scenarios(tier):
        me = BOUNDS[tier]['max_events'] + (1 if len(s['jobs']) == 1 else -1 if sum(s['jobs']) >= 3 else 0)
        npolls = sum(1 for st in s['steps'] if st[0] == 'poll')
        if npolls >= 2 and sum(s['jobs']) >= 2: me -= 1      # every poll multiplies the "nothing yet" choices
        inst = dict(s, max_events=max(2, me))
        if sum(s['jobs']) >= 2:
            inst['_split'] = 4       # explore the first decisions here, hand the sub-trees to the pool
        out.append(inst)
    out.sort(key=lambda i: -i['max_events'] * sum(i['jobs']))
    return out

SIGS = [2, 9, 15]

class World:
    """abstract kernel + abstract job table"""
    def __init__(self, I, njobs_procs, max_events, first=None):
        self.I = I
        self.first = first
        self.pids = []          # per job: list of symbolic pids
        allp = []
        k = 0
        for j, n in enumerate(njobs_procs):
            ps = []
            for i in range(n):
                p = I.sym_int('pid%d_%d' % (j, i), 32, 2, 4194304)
                ps.append(p); allp.append(p)
            self.pids.append(ps)
        for a, b in itertools.combinations(allp, 2):
            I.ctx.assume(a != b)
        self.state = {}         # (job, idx) -> 'running' | 'stopped'   (absent: not launched or dead)
        self.launched = set()
        self.events_left = max_events
        self.log = []           # (call kind, answer) in call order, for native replay
        self.nev = 0
        self.pending_change = {}
    def live(self): return sorted(self.state.keys())
    def gid(self, j): return self.pids[j][0]
    def waitpid(self, I, pid, flags):
        nohang = bool(flags & 1)
        live = self.live()
        if not live:
            self.log.append(('e', 5, 0, 0)); return ERR(models_os.errno('ECHILD'))
        if self.events_left <= 0:
            if nohang:
                self.log.append(('e', 4, 0, 0)); return OK(Agg('StillAlive', []))
            raise EndPath('event bound reached while a foreground wait is blocking')
        self.nev += 1
        n = self.nev
        from ctx import Infeasible
        if n == 1 and self.first is not None:
            if self.first == 'none':
                if not nohang: raise Infeasible()
                self.log.append(('e', 4, 0, 0)); return OK(Agg('StillAlive', []))
        elif nohang and I.choose('ev%d_none' % n, 2) == 1:
            self.log.append(('e', 4, 0, 0)); return OK(Agg('StillAlive', []))
        self.events_left -= 1
        k = I.choose('ev%d_who' % n, len(live))
        who = live[k]
        pidv = self.pids[who[0]][who[1]]
        st = self.state[who]
        kinds = ['exit', 'kill'] + (['stop'] if st == 'running' else ['cont'])
        if n == 1 and self.first is not None: kind = self.first
        else: kind = kinds[I.choose('ev%d_kind' % n, len(kinds))]
        if kind == 'exit':
            status = I.sym_int('ev%d_status' % n, 32, 0, 255)
            del self.state[who]
            self.last_status = getattr(self, 'last_status', {}); self.last_status[who] = status
            self.log.append(('e', 0, pidv, status))
            return OK(Agg('Exited', [pidv, status]))
        if kind == 'kill':
            sig = SIGS[I.choose('ev%d_sig' % n, len(SIGS))]
            del self.state[who]
            self.last_status = getattr(self, 'last_status', {}); self.last_status[who] = 128 + sig
            self.log.append(('e', 1, pidv, sig))
            return OK(Agg('Signaled', [pidv, sig, False]))
        if kind == 'stop':
            self.state[who] = 'stopped'
            self.log.append(('e', 2, pidv, 0))
            return OK(Agg('Stopped', [pidv, 20]))
        self.state[who] = 'running'
        self.log.append(('e', 3, pidv, 0))
        return OK(Agg('Continued', [pidv]))
    def getpgid(self, I, pid):
        for j, ps in enumerate(self.pids):
            for p in ps:
                if hlib.truthy(I, p == pid if is_sym(p) or is_sym(pid) else p == pid): return self.gid(j)
        return -1

def table_of(I, sh):
    """[(id, gid, [pids], [stopped pids], status text)] from the Shell value"""
    p = I.prog
    out = []
    for k, job in hlib.field(p, sh, 'jobs').items:
        job = I.deref(job)
        pids = list(I.list_of(hlib.field(p, job, 'pids')))
        stopped = [x[0] for x in hlib.field(p, job, 'pids_stopped').items]
        out.append(dict(key=k, id=hlib.field(p, job, 'id'), gid=hlib.field(p, job, 'gid'), pids=pids, stopped=stopped,
                        status=I.str_of(hlib.field(p, job, 'status')), is_bg=hlib.field(p, job, 'is_bg')))
    return out

def eqv(I, a, b):
    if is_sym(a) or is_sym(b): return hlib.truthy(I, a == b)
    return a == b

def check_table(I, w, sh, where):
    """the table must be exactly the abstract one"""
    tab = table_of(I, sh)
    live_jobs = sorted(set(j for (j, i) in w.state))
    I.h_snap.append((where, tab))
    expect(I, len(tab) == len(live_jobs), 'job-count@' + where, dict(table=len(tab), live=len(live_jobs)))
    ids = [t['id'] for t in tab]
    expect(I, len(set(ids)) == len(ids), 'duplicate-id@' + where, None)
    for j in live_jobs:
        rows = [t for t in tab if eqv(I, t['gid'], w.gid(j))]
        expect(I, len(rows) == 1, 'job-missing@' + where, dict(job=j))
        row = rows[0]
        members = [i for (jj, i) in w.state if jj == j]
        expect(I, len(row['pids']) == len(members), 'member-count@' + where, dict(job=j, table=len(row['pids']), live=len(members)))
        for i in members:
            expect(I, any(eqv(I, x, w.pids[j][i]) for x in row['pids']), 'member-missing@' + where, dict(job=j))
        allstopped = all(w.state[(j, i)] == 'stopped' for i in members)
        is_stopped = str_eq(row['status'], lit('Stopped')) is True
        expect(I, is_stopped == allstopped, 'stopped-flag@' + where, dict(job=j, table_status=''.join(chr(c) for c in row['status']), all_stopped=allstopped))

def body(inst):
    def h(I):
        p = I.prog
        I.env = models_env.Env(I, {}, unknown='unset')
        w = World(I, inst['jobs'], inst['max_events'], inst.get('first'))
        I.os = w; I.h_world = w; I.h_snap = []; I.h_steps = []
        sh = hlib.mk_shell(I); cell = [sh]
        for step in inst['steps']:
            if step[0] == 'launch':
                j, bg = step[1], step[2]
                # smallest unused id
                before = [t['id'] for t in table_of(I, sh)]
                want_id = 1
                while want_id in before: want_id += 1
                for i, pid in enumerate(w.pids[j]):
                    I.call_fn('shell::Shell::insert_job', [Ref(cell, 0), w.gid(j), pid, lit('cmd'), lit('Running'), bg])
                    w.state[(j, i)] = 'running'
                    I.h_steps.append(('L', w.gid(j), pid, bg))
                rows = [t for t in table_of(I, sh) if eqv(I, t['gid'], w.gid(j))]
                expect(I, len(rows) == 1 and rows[0]['id'] == want_id, 'smallest-free-id', dict(want=want_id))
            elif step[0] == 'wait':
                j = step[1]
                pids = RVec(list(w.pids[j]))
                r = I.call_fn('wait_fg_job', [Ref(cell, 0), w.gid(j), Slice(pids.v, 0, len(pids.v))])
                I.h_steps.append(('F', w.gid(j), list(w.pids[j])))
                # returns exactly when every member has exited or is stopped
                members = [i for (jj, i) in w.state if jj == j]
                expect(I, all(w.state[(j, i)] == 'stopped' for i in members), 'wait-returned-early', dict(running=[i for i in members if w.state[(j, i)] != 'stopped']))
                last = (j, len(w.pids[j]) - 1)
                if last not in w.state:
                    st = hlib.field(p, r, 'status')
                    want = w.last_status[last]
                    expect(I, st == want if (is_sym(st) or is_sym(want)) else st == want, 'wait-status', None)
                I.h_snap.append(('wait', hlib.field(p, r, 'status')))
            else:
                I.call_fn('try_wait_bg_jobs', [Ref(cell, 0), True, False])
                I.h_steps.append(('P',))
                check_table(I, w, sh, 'poll%d' % len(I.h_steps))
        return dict(events=w.nev)
    return h

def native_replay(model, I):
    """feed the recorded waitpid answers to the native build and compare every snapshot"""
    w = I.h_world
    ev = lambda v: conc(model, v)
    args = []
    for (_, kind, pid, val) in w.log:
        args.append('w:%d:%d:%d' % (kind, ev(pid), ev(val)))
    for st in I.h_steps:
        if st[0] == 'L': args.append('L:%d:%d:%d' % (ev(st[1]), ev(st[2]), 1 if st[3] else 0))
        elif st[0] == 'F': args.append('F:%d:%s' % (ev(st[1]), ','.join(str(ev(x)) for x in st[2])))
        else: args += ['P', 'S']
        if st[0] == 'F': pass
    return args

def sym_snapshots(model, I):
    out = []
    for where, tab in I.h_snap:
        if where == 'wait':
            out.append({'wait': conc(model, tab)})
        else:
            rows = []
            for t in tab:
                rows.append([conc(model, t['id']), conc(model, t['gid']), [conc(model, x) for x in t['pids']],
                             sorted(conc(model, x) for x in t['stopped']), explore.chars_to_str(model, t['status']), conc(model, t['is_bg'])])
            out.append({'jobs': sorted(rows)})
    return out

def run_instance(prog, inst, tier, seed, deadline):
    nat = nativemod.Native(timeout=8)
    try:
        def compare(l, I):
            args = native_replay(l.model, I)
            nat.close()     # fresh process: the REAP/STOP/CONT/KILL maps are process-global
            try: r = nat.call('jobs', *args)
            except nativemod.NativeHang: return None, 'hang', args
            want = sym_snapshots(l.model, I)
            got = []
            for x in r:
                if 'wait' in x: got.append({'wait': x['wait'][1]})
                else: got.append({'jobs': [list(j) for j in x['jobs']]})
            return (got == want), got, args
        def on_ok(l, I):
            if isinstance(l.payload, dict) and 'end' in l.payload: return None
            same, got, args = compare(l, I)
            if not same: return ('mismatch', dict(steps=args, symbolic=sym_snapshots(l.model, I), native=got))
            return ('validated', 1)
        def on_violation(l, I):
            args = native_replay(l.model, I)
            label = l.msg.split('@')[0]
            kinds = ''.join({0: 'x', 1: 'k', 2: 's', 3: 'c', 4: '.', 5: 'E'}[e[1]] for e in I.h_world.log)
            return dict(label=l.msg, scenario=inst['name'], steps=args, detail=l.payload, events=kinds,
                        key='%s%s' % (label, (':stop+continue-between-polls' if ('c' in kinds and 's' in kinds) else '') if label == 'stopped-flag' else ''))
        def on_panic(l, I):
            return dict(label='crash', scenario=inst['name'], steps=native_replay(l.model, I), key='crash:' + str(l.msg)[:40])
        return hsupport.run_paths(prog, body(inst), deadline, on_ok=on_ok, on_violation=on_violation, on_panic=on_panic, step_budget=1_500_000,
                                  prefix=inst.get('_prefix'), split_depth=inst.get('_split'))
    finally:
        nat.close()

# ---- native oracle for replays: re-derive the abstract table from the consumed events and compare with every snapshot
def abstract_check(steps, native):
    events = [tuple(int(x) for x in s.split(':')[1:]) for s in steps if s.startswith('w:')]
    total = len(events)
    state = {}; gid_of = {}; last = {}
    problems = []
    consumed = 0
    def apply_upto(n):
        nonlocal consumed
        while consumed < n:
            kind, pid, val = events[consumed]; consumed += 1
            if kind == 0: state[pid] = 'dead'; last[pid] = val
            elif kind == 1: state[pid] = 'dead'; last[pid] = 128 + val
            elif kind == 2: state[pid] = 'stopped'
            elif kind == 3: state[pid] = 'running'
    it = iter(native)
    for s in steps:
        f = s.split(':')
        if f[0] == 'L':
            gid_of[int(f[2])] = int(f[1]); state[int(f[2])] = 'running'
        elif f[0] == 'F':
            r = next(it)
            apply_upto(total - r['left'])
            pids = [int(x) for x in f[2].split(',')]
            running = [p_ for p_ in pids if state.get(p_) == 'running']
            if running: problems.append('wait_fg_job returned while %s still running' % running)
            lp = pids[-1]
            if state.get(lp) == 'dead' and r['wait'][1] != last[lp]: problems.append('wait status %s, last process ended with %s' % (r['wait'][1], last[lp]))
        elif f[0] == 'S':
            r = next(it)
            apply_upto(total - r['left'])
            live = {}
            for pid, g in gid_of.items():
                if state.get(pid) != 'dead': live.setdefault(g, []).append(pid)
            tab = {j[1]: j for j in r['jobs']}
            if sorted(tab) != sorted(live): problems.append('table has groups %s, live groups are %s' % (sorted(tab), sorted(live)))
            for g, ps in live.items():
                if g in tab:
                    if sorted(tab[g][2]) != sorted(ps): problems.append('group %d lists %s, live members are %s' % (g, tab[g][2], sorted(ps)))
                    alls = all(state.get(p_) == 'stopped' for p_ in ps)
                    if (tab[g][4] == 'Stopped') != alls: problems.append('group %d shown as %s but all-members-stopped is %s' % (g, tab[g][4], alls))
            ids = [j[0] for j in r['jobs']]
            if len(set(ids)) != len(ids): problems.append('duplicate job ids %s' % ids)
    return problems

def replay(v):
    nat = nativemod.Native(timeout=8)
    try:
        try: r = nat.call('jobs', *v['steps'])
        except nativemod.NativeHang: return dict(witness=v['steps'], native='hang', reproduced=True)
        if isinstance(r, dict): return dict(witness=v['steps'], native=r, reproduced=v['label'] == 'crash')
        problems = abstract_check(v['steps'], r)
        return dict(witness=' '.join(v['steps']), native=r, problems=problems, reproduced=bool(problems))
    finally:
        nat.close()

def replay_file(path):
    d = json.load(open(path))
    r = replay(d['violation'])
    print(json.dumps(r, indent=1))
    if r['reproduced']:
        print('VIOLATION property=%s replay=%s' % (PROPERTY, path)); return 1
    return 0

def finish(pid, tier, seed, results, known, wall, th, log):
    agg = hsupport.merge(results)
    hsupport.report_issues(agg, log)
    code, lines, new, nknown = hsupport.triage(pid, agg, known, lambda v: v['key'], replay, log, max_replays_per_key=8)
    for ln in lines: print(ln)
    extra = dict(bounds=BOUNDS[tier], scenarios=[r.get('instance') for r in results], repo_tree=th, violating_paths=len(agg['violations']),
                 new_violations=new, known_findings_reproduced=nknown, paths_cut_by_event_bound=agg['classes'].get('cut', 0))
    hsupport.write_evidence(pid, tier, seed, agg, wall, extra, ASSUMPTIONS, new)
    log('paths=%d queries=%d solver=%.1fs validated=%d violations(paths)=%d new=%d known=%d -> exit %d' % (
        agg['paths'], agg['queries'], agg['solver_s'], agg['validated'], len(agg['violations']), new, nknown, code))
    return code
