"""C11 - command substitution splices the command's output in literally, exactly once.

Encoded (MIR): shell::do_command_substitution (= _for_dot + _for_dollar), should_do_dollar_command_extension,
libs::re::find_first_group and the real CommandLine::from_line for the inner command.  core::run_pipeline is the
capture stub: it returns a CommandResult whose stdout is symbolic and counts its invocations.
Symbolic: the captured output (arbitrary scalars incl. newline, `$1`, `${x}`, backslash ...), the characters around
the substitution, quote tag; both spellings.  Oracle: token == head + output-without-trailing-newlines + tail, the
stub is invoked exactly once per substitution with the written inner command."""
import itertools, json, os, shutil, tempfile
import z3
import hsupport, hlib, explore, models_env, native as nativemod
from engine import (lit, Ref, Agg, RString, RVec, is_sym, str_eq, ch_eq, b_and, b_or, EndPath)
from explore import expect, conc, Violation

PROPERTY = 'C11'
HELPERS = os.path.join(hsupport.VERIF, 'helpers/bin')
BUDGET = {'quick': 900, 'thorough': 1500}
BOUNDS = {'quick': dict(out_len=3, ctx_len=2), 'thorough': dict(out_len=5, ctx_len=2)}
ASSUMPTIONS = [
    'bounded: captured output of <= out_len characters (arbitrary scalars except NUL, including newline), <= ctx_len characters before and after the substitution (excluding quotes, backquote, backslash, `$` and parentheses, which would make it a different word)',
    'stub core::run_pipeline (capture=true): returns the symbolic output with a symbolic i32 status and counts calls; stdin/stderr handling of the real capture is C08',
    'do_command_substitution is driven directly on one token (the other expansion passes are C10/C12)',
    'the inner command is the fixed word `out <hex>` parsed by the real CommandLine::from_line; an unparsable inner command (`>`) is a separate instance',
]
FORMS = ['dollar', 'bq-embedded', 'bq-token', 'two-dollar', 'bad-inner-dollar', 'bad-inner-bq']
CTX_EXCLUDE = '\'"`\\$()'

def instances(tier, seed):
    b = BOUNDS[tier]
    out = []
    for form in FORMS:
        tags = [''] if form == 'bq-token' else ['', '"']
        for tag in tags:
            for ol in range(0, b['out_len'] + 1):
                for hl in range(0, b['ctx_len'] + 1):
                    for tl in range(0, b['ctx_len'] + 1):
                        if form == 'bq-token' and (hl or tl): continue
                        if form.startswith('bad') and ol: continue
                        if form == 'two-dollar' and (ol > 1 or hl + tl > 1): continue
                        out.append(dict(name='%s/%s/o%d/h%d/t%d' % (form, 'dq' if tag else 'plain', ol, hl, tl), form=form, tag=tag, ol=ol, hl=hl, tl=tl))
    out.sort(key=lambda i: -(i['ol'] + i['hl'] + i['tl']))
    return out

def strip_trailing_newlines(I, chars):
    chars = list(chars)
    while chars and hlib.truthy(I, ch_eq(chars[-1], 10)): chars.pop()
    return chars

def hexof(n): return '00' * max(n, 1)

def body(inst):
    def h(I):
        p = I.prog
        I.env = models_env.Env(I, {'HOME': '/home/u', 'PATH': HELPERS}, unknown='unset')
        I.env.glob_handler = lambda I_, pat: []
        form = inst['form']
        nsub = 2 if form == 'two-dollar' else 1
        outs = []
        for k in range(nsub):
            cs = []
            for i in range(inst['ol']):
                c = I.ctx.bv('o%d_%d' % (k, i), 32)
                I.ctx.assume(z3.And(z3.ULT(c, 0x110000), z3.Or(z3.ULT(c, 0xD800), z3.UGT(c, 0xDFFF)), c != 0))
                I.ctx.inputs.append(('o%d_%d' % (k, i), c, 'char'))
                cs.append(c)
            outs.append(cs)
        def ctx_char(name, allow_dollar):
            # surrounding text: any scalar (newline included - `"$(cmd)<NL>rest"`) except quotes, backquote, backslash, parentheses;
            # `$` is allowed where it cannot start another substitution (not directly before the `$(` / backquote)
            c = I.ctx.bv(name, 32)
            cs = [z3.ULT(c, 0x110000), z3.Or(z3.ULT(c, 0xD800), z3.UGT(c, 0xDFFF)), c != 0]
            for x in CTX_EXCLUDE:
                if x == '$' and allow_dollar: continue
                cs.append(c != ord(x))
            I.ctx.assume(z3.And(*cs)); I.ctx.inputs.append((name, c, 'char'))
            return c
        head = [ctx_char('h%d' % i, i < inst['hl'] - 1) for i in range(inst['hl'])]
        tail = [ctx_char('t%d' % i, True) for i in range(inst['tl'])]
        inner = 'out ' + hexof(inst['ol'])
        if form.startswith('bad'): inner = '>'
        calls = []
        def run_pipeline_stub(I_, a, callee):
            cl = I.deref(a[1])
            calls.append((I.str_of(hlib.field(p, cl, 'line')), a[3]))
            k = len(calls) - 1
            # a call beyond the written substitutions can only come from re-reading inserted output: answer empty
            # the inner command's exit status is symbolic (0 / 1 / 128+ ...): the property replaces `$(cmd)` by cmd's output whatever
            # cmd's status was (seed C11-4 emptied the replacement for a failing inner command)
            st = I.ctx.bv('st%d' % k, 32)
            I.ctx.inputs.append(('st%d' % k, st, 'i32'))
            if not hasattr(I, 'h_sts'): I.h_sts = []
            I.h_sts.append(st)
            cr = hlib.mk_struct(p, 'CommandResult', gid=0, status=st, stdout=RString(outs[k] if k < nsub else []), stderr=RString())
            return Agg(None, [False, cr])
        I.stubs['run_pipeline'] = run_pipeline_stub
        if form in ('dollar', 'bad-inner-dollar'):
            text = head + list(lit('$(' + inner + ')')) + tail
            tag = inst['tag']
        elif form == 'two-dollar':
            text = head + list(lit('$(' + inner + ')')) + list(lit('$(' + inner + ')')) + tail
            tag = inst['tag']
        elif form in ('bq-embedded', 'bad-inner-bq'):
            text = head + list(lit('`' + inner + '`')) + tail
            tag = inst['tag']
        else:
            text = list(lit(inner)); tag = '`'
        I.h_text = text; I.h_outs = outs; I.h_head = head; I.h_tail = tail
        sh = hlib.mk_shell(I)
        toks = hlib.tokens_value([(lit(tag), tuple(text))])
        cs_ = [sh]; ct = [toks]
        I.call_fn('do_command_substitution', [Ref(cs_, 0), Ref(ct, 0)])
        got = hlib.tokens_of(I, ct[0])
        I.h_got = got
        expect(I, len(got) == 1, 'token-count', None)
        if form.startswith('bad'):
            want = head + tail
            I.h_want = want
            expect(I, len(calls) == 0, 'ran-unparsable', None)
            expect(I, str_eq(tuple(got[0][1]), tuple(want)), 'bad-inner-replacement', None)
            return dict(result=got[0][1])
        want = list(head)
        for k in range(nsub): want += strip_trailing_newlines(I, outs[k])
        want += tail
        I.h_want = want
        I.h_calls = len(calls)
        expect(I, len(calls) == nsub, 'invocation-count', dict(calls=len(calls)))
        for ln, cap in calls:
            expect(I, str_eq(ln, lit(inner)) is True and cap is True, 'inner-command', None)
        expect(I, str_eq(tuple(got[0][1]), tuple(want)), 'splice', None)
        return dict(result=got[0][1])
    return h

# ------------------------------------------------------------------------------------------------------
def concrete(I, inst, m):
    S = lambda cs: explore.chars_to_str(m, cs)
    sts = [m.eval(st, model_completion=True).as_signed_long() for st in getattr(I, 'h_sts', [])]
    # native side: the `out` helper exits with $OUT_STATUS; a process status is 0..255, so a non-zero model status maps to a non-zero byte
    nst = 0 if not any(sts) else (([x & 0xff for x in sts if x][0]) or 1)
    return dict(head=S(I.h_head), tail=S(I.h_tail), outs=[S(o) for o in I.h_outs], statuses=sts, native_status=nst)

def native_token(inst, c):
    inner = ['out ' + (o.encode('utf-8').hex() or '') for o in c['outs']]
    if inst['form'].startswith('bad'): inner = ['>']
    form = inst['form']
    if form in ('dollar', 'bad-inner-dollar'): return inst['tag'], c['head'] + '$(' + inner[0] + ')' + c['tail']
    if form == 'two-dollar': return inst['tag'], c['head'] + '$(' + inner[0] + ')' + '$(' + inner[1] + ')' + c['tail']
    if form in ('bq-embedded', 'bad-inner-bq'): return inst['tag'], c['head'] + '`' + inner[0] + '`' + c['tail']
    return '`', inner[0]

def expected_concrete(inst, c):
    if inst['form'].startswith('bad'): return c['head'] + c['tail']
    return c['head'] + ''.join(o.rstrip('\n') for o in c['outs']) + c['tail']

def native_run(inst, c, timeout=6):
    d = tempfile.mkdtemp(prefix='cicada-verif-c11-')
    log = os.path.join(d, 'calls.jsonl')
    nat = nativemod.Native(cwd=d, env={'HOME': '/home/u', 'PATH': HELPERS, 'ARGV_OUT': log, 'LANG': 'C.UTF-8', 'OUT_STATUS': str(c.get('native_status', 0))}, timeout=timeout)
    try:
        tag, text = native_token(inst, c)
        try:
            r = nat.call('do_command_substitution', tag, text)
        except nativemod.NativeHang:
            return dict(token=text, outcome='hang')
        ncalls = len([x for x in open(log)]) if os.path.exists(log) else 0
        if isinstance(r, dict): return dict(token=text, outcome='crash', detail=r)
        return dict(token=text, outcome='ok', result=r[0][1] if r else None, ntokens=len(r), calls=ncalls)
    finally:
        nat.close(); shutil.rmtree(d, ignore_errors=True)

def classify(inst, c, nr):
    """root-cause key of a native divergence"""
    if nr['outcome'] != 'ok': return nr['outcome'] + ':' + inst['form']
    want = expected_concrete(inst, c)
    nsub = 2 if inst['form'] == 'two-dollar' else (0 if inst['form'].startswith('bad') else 1)
    if nr.get('result') == want and nr.get('calls') == nsub: return None
    outs = ''.join(c['outs'])
    if inst['form'] == 'two-dollar': return 'two-substitutions-in-one-word'
    if any(('$(' in o or '`' in o) for o in c['outs']): return 'output-rescanned'
    if nr.get('calls') != nsub: return 'invocations:' + inst['form']
    if '$' in outs and inst['form'] in ('dollar',): return 'output-used-as-template'
    stripped = ''.join(o.rstrip('\n') for o in c['outs'])
    if stripped != stripped.strip(): return 'output-trimmed-both-ends'
    if c.get('native_status'): return 'failing-inner-command:' + inst['form']
    return 'splice:' + inst['form'] + ':' + ('dq' if inst['tag'] else 'plain')

def run_instance(prog, inst, tier, seed, deadline):
    def on_ok(l, I):
        c = concrete(I, inst, l.model)
        if any('\x00' in o for o in c['outs']): return None
        nr = native_run(inst, c)
        exp = explore.chars_to_str(l.model, I.h_got[0][1])
        if nr.get('outcome') != 'ok' or nr.get('result') != exp:
            return ('mismatch', dict(token=nr.get('token'), symbolic=exp, native=nr))
        return ('validated', 1)
    def mk(l, I, label):
        c = concrete(I, inst, l.model)
        nr = native_run(inst, c)
        key = classify(inst, c, nr) or ('unreproduced:%s:%s' % (inst['name'], label))
        return dict(label=label, inst=inst, conc=c, key=key, native=nr, expected=expected_concrete(inst, c),
                    symbolic=[explore.chars_to_str(l.model, t[1]) for t in getattr(I, 'h_got', [])])
    def on_violation(l, I): return mk(l, I, l.msg)
    def on_panic(l, I): return mk(l, I, 'crash:' + str(l.msg))
    def on_budget(l, I):
        if l.inputs is None: return None
        r = mk(l, I, 'hang')
        return r if r['native'].get('outcome') == 'hang' or 'loop state repeats' in (l.msg or '') else None
    return hsupport.run_paths(prog, body(inst), deadline, on_ok=on_ok, on_violation=on_violation, on_panic=on_panic,
                             on_budget=on_budget, step_budget=300_000)

def replay(v):
    nr = native_run(v['inst'], v['conc'])
    key = classify(v['inst'], v['conc'], nr)
    return dict(witness=dict(token=nr.get('token'), tag=v['inst']['tag'], outputs=v['conc']['outs']), expected=v['expected'], native=nr,
                reproduced=key is not None, key_now=key)

def replay_file(path):
    d = json.load(open(path))
    r = replay(d['violation'])
    print(json.dumps(r, indent=1, ensure_ascii=False))
    if r['reproduced']:
        print('VIOLATION property=%s replay=%s' % (PROPERTY, path)); return 1
    return 0

def finish(pid, tier, seed, results, known, wall, th, log):
    agg = hsupport.merge(results)
    hsupport.report_issues(agg, log)
    code, lines, new, nknown = hsupport.triage(pid, agg, known, lambda v: v['key'], replay, log)
    for ln in lines: print(ln)
    extra = dict(bounds=BOUNDS[tier], repo_tree=th, violating_paths=len(agg['violations']), new_violations=new, known_findings_reproduced=nknown)
    hsupport.write_evidence(pid, tier, seed, agg, wall, extra, ASSUMPTIONS, new)
    log('paths=%d queries=%d solver=%.1fs validated=%d violations(paths)=%d new=%d known=%d -> exit %d' % (
        agg['paths'], agg['queries'], agg['solver_s'], agg['validated'], len(agg['violations']), new, nknown, code))
    return code
