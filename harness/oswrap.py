"""builds the per-property entry points (instances / run_instance / replay / finish) on top of oshar.py"""
import json
import hsupport, oshar

def make(g, pid, families, assumptions, labels, keep=lambda spec: True, extra_fds=(3, 4), tc_faults=False, faults=(False,), native=True, tty_native=False):
    def instances(tier, seed):
        out = []
        for fam in families:
            for spec in oshar.specs(fam, tier):
                if not keep(spec): continue
                for f in faults:
                    if f and len(spec['stages']) > 3: continue
                    ef = extra_fds if tier == 'quick' or not extra_fds else tuple(extra_fds) + (5,)
                    opts = dict(faults=f, extra_fds=ef, tty=True, tc_faults=tc_faults)
                    out.append(dict(name='%s/%s/%s' % (fam, spec['name'], 'faults' if f else 'nofault'), spec=spec, opts=opts, _split=4))
        return out
    def run_instance(prog, inst, tier, seed, deadline):
        res = oshar.run_instance(prog, inst, tier, seed, deadline)
        res['violations'] = [v for v in res['violations'] if v['label'] in labels or v['label'].startswith('crash')]
        return res
    def find_spec(name):
        for fam in families:
            for sp in oshar.specs(fam, 'thorough'):
                if sp['name'] == name: return sp
        return None
    def replay(v):
        if native: return oshar.replay(v)
        if tty_native:
            # the real binary on a pseudo-terminal under strace: does the real call sequence show the same problem?
            import ttyprobe
            sp = find_spec(v.get('spec_name'))
            if sp is None or sp.get('capture'): return dict(reproduced=None, witness=v['line'], note='no interactive spelling for this spec')
            if (v.get('opts') or {}).get('faults') and v['label'] in ('terminal-not-returned',) and 'tc_fault' in json.dumps(v.get('inputs') or {}):
                return dict(reproduced=None, witness=v['line'], note='needs a failing tcsetpgrp, which cannot be staged on a real terminal')
            f = ttyprobe.probe(oshar.render(sp))
            pr = ttyprobe.judge(f, sp)
            if pr is None: return dict(reproduced=None, witness=v['line'], facts=f)
            return dict(reproduced=any(lab == v['label'] for lab, _ in pr), witness=oshar.render(sp), problems=pr,
                        facts={k: f.get(k) for k in ('children', 'groups', 'tcsetpgrp', 'masks_at_fork', 'final_mask', 'shell_pgrp')})
        return dict(reproduced=True, witness=v['line'], detail=v.get('detail'),
                    note='call-sequence property: the violating sequence of setpgid/tcsetpgrp calls derived from the code is the evidence; the kernel side is outside the claim')
    def replay_file(path):
        d = json.load(open(path)); r = replay(d['violation']); print(json.dumps(r, indent=1, default=str))
        if r['reproduced']:
            print('VIOLATION property=%s replay=%s' % (pid, path)); return 1
        return 0
    def finish(pid_, tier, seed, results, known, wall, th, log):
        agg = hsupport.merge(results)
        if tty_native:
            # translation validation at the call-sequence level: every interactive spec once through the real binary
            import ttyprobe, concurrent.futures
            todo = []
            for fam in families:
                for sp in oshar.specs(fam, tier):
                    if keep(sp) and not sp.get('capture'): todo.append(sp)
            with concurrent.futures.ThreadPoolExecutor(4) as ex:
                facts = list(ex.map(lambda sp: ttyprobe.probe(oshar.render(sp)), todo))
            for sp, f in zip(todo, facts):
                pr = ttyprobe.judge(f, sp)
                if pr is None: agg['issues'].append(dict(status='inconclusive', msg='tty probe: ' + str(f.get('error')), where=[sp['name']], inputs=None, instance=sp['name']))
                elif pr: agg['mismatches'].append(dict(spec=sp['name'], line=oshar.render(sp), native_problems=pr, note='the real call sequence shows a problem the model does not'))
                else: agg['validated'] += 1
        hsupport.report_issues(agg, log)
        code, lines, new, nknown = hsupport.triage(pid_, agg, known, lambda v: v['key'], replay, log, max_replays_per_key=6)
        for ln in lines: print(ln)
        extra = dict(specs=sorted(set(r.get('instance', '').split('#')[0] for r in results)), repo_tree=th, violating_paths=len(agg['violations']),
                     new_violations=new, known_findings_reproduced=nknown)
        hsupport.write_evidence(pid_, tier, seed, agg, wall, extra, assumptions, new)
        log('paths=%d queries=%d solver=%.1fs violations(paths)=%d new=%d known=%d -> exit %d' % (
            agg['paths'], agg['queries'], agg['solver_s'], len(agg['violations']), new, nknown, code))
        return code
    g.update(PROPERTY=pid, BUDGET={'quick': 900, 'thorough': 1500}, ASSUMPTIONS=assumptions, instances=instances, run_instance=run_instance,
             replay=replay, replay_file=replay_file, finish=finish)
