"""C02 - pipelines deliver every byte, terminate, and report the last stage's status (plumbing part, see oshar.py).
Plumbing oracle: at execve stage i has pipe i-1's read end on fd 0 and pipe i's write end on fd 1 and nothing else;
every stage is started exactly once; when run_pipeline returns the shell holds no pipe end - by POSIX pipe semantics
exactly the condition for every byte to reach the next stage and for EOF to propagate.
The waiting part (the shell resumes only after all stages have terminated or stopped; status of the last stage, 128+signal,
under every order of child events) is decided by the C06 harness (scenarios fg1, fg2, fg3: wait-returned-early, wait-status)."""
import oswrap
oswrap.make(globals(), 'C02', ('pipe',), [
    'POSIX descriptor model (osmodel.py); the kernel\'s byte transport, blocking and SIGPIPE are outside',
    'n = 1..3 stages (thorough 5), builtins in every position, not-found commands; initial table 0,1,2 plus an arbitrary subset of {3,4}',
    'waiting and final status under every event order: decided by check C06 (same engine), not repeated here',
], ('stage-start-count', 'child-stdin', 'child-stdout', 'child-stderr', 'child-argv', 'shell-fd-leak', 'child-inherits-fd', 'not-found-status',
    'child-exited-without-exec', 'builtin-output-target'), keep=lambda s: not s.get('capture') and not s.get('bg'))
