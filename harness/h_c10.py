"""C10 - parameter expansion substitutes current values, once, and always terminates.

Encoded (MIR): shell::expand_env, env_in_token, expand_one_env, Shell::get_env.  Symbolic: a token assembled from
segments (literal character, $A, ${A}, $AB, ${AB}, $B, $?, $$), its literal characters, the values of A, AB, B (each
0..2 arbitrary characters, so `$B`, `${A}`, `$`, braces, regex-special text are all covered), the quote tag, and
previous_status.  Oracle: one left-to-right substitution pass whose inserted text is not rescanned."""
import itertools, json, os
import z3
import hsupport, hlib, explore, models_env, native as nativemod
from engine import (lit, Ref, Agg, RString, RVec, is_sym, str_eq, ch_eq, b_and, b_or, ch_in_range)
from explore import expect, conc, Violation
from models import int_to_chars

PROPERTY = 'C10'
BUDGET = {'quick': 900, 'thorough': 1500}
BOUNDS = {'quick': dict(max_segs=3, val_len=1, max_sym=4), 'thorough': dict(max_segs=4, val_len=2, max_sym=5)}
ASSUMPTIONS = [
    'bounded: tokens of <= max_segs segments, variable values of <= val_len characters (arbitrary scalars except NUL/newline); literal characters exclude quotes, backquote, backslash and parentheses (those make the word a different kind of word: embedded quoting / command substitution) and digits (`$1` is positional-parameter syntax, property C15)',
    'variables A, AB, B live in the shell variable table (tokens of <= 2 segments with one referenced name: also exported, or exported with an older value left in the shell table - the exported value is the current one), every other name is unset; $$ is an arbitrary pid; previous_status arbitrary 0..255',
    'expand_env is driven directly on one token with its quote tag (the tokenizer that produces the tag is C01)',
]
SEGS = ['L', '$A', '${A}', '$AB', '$B', '${B}', '$?', '$$', '${?}']
VARS = ['A', 'AB', 'B']

def instances(tier, seed):
    b = BOUNDS[tier]
    out = []
    for n in range(1, b['max_segs'] + 1):
        for combo in itertools.product(SEGS, repeat=n):
            if all(s == 'L' for s in combo) and n > 1: continue
            refs = set(s.strip('${}') for s in combo if s not in ('L', '$?', '$$', '${?}'))
            nsym = sum(1 for s in combo if s == 'L') + len(refs) * b['val_len']
            if nsym > b['max_sym']: continue
            for tag in ('', '"', "'"):
                if tag == "'" and n > 2: continue
                out.append(dict(name='%s/%s' % ('+'.join(combo), {'': 'plain', '"': 'dq', "'": 'sq'}[tag]), segs=list(combo), tag=tag, refs=sorted(refs)))
    return out

LIT_EXCLUDE = '\'"`\\()0123456789'
def is_name_char(c):
    return b_or(ch_in_range(c, 48, 57), ch_in_range(c, 65, 90), ch_in_range(c, 97, 122), ch_eq(c, 95))

class Lazy:
    def __init__(self, f): self.f = f; self.v = None
    def __iter__(self):
        if self.v is None: self.v = self.f()
        return iter(self.v)

def reference(I, text, values, status_chars, pid_chars):
    """single left-to-right pass over `text` (list of chars); returns list of chars"""
    out = []; i = 0; n = len(text)
    T = lambda c: hlib.truthy(I, c)
    def lookup(name):
        for k, v in values.items():
            if T(str_eq(tuple(name), lit(k))): return list(v)
        return []
    while i < n:
        c = text[i]
        if not T(ch_eq(c, 36)):
            out.append(c); i += 1; continue
        if i + 1 >= n:
            out.append(c); i += 1; continue
        d = text[i + 1]
        if T(ch_eq(d, 123)):
            j = i + 2
            while j < n and T(is_name_char(text[j])): j += 1
            if j < n and T(ch_eq(text[j], 125)) and j > i + 2:
                out.extend(lookup(text[i + 2:j])); i = j + 1; continue
            if j == i + 3 and j < n and False: pass
            # ${?} and ${$}
            if i + 3 < n and T(ch_eq(text[i + 3], 125)):
                if T(ch_eq(text[i + 2], 63)): out.extend(status_chars); i += 4; continue
                if T(ch_eq(text[i + 2], 36)): out.extend(pid_chars); i += 4; continue
            out.append(c); i += 1; continue
        if T(ch_eq(d, 63)): out.extend(status_chars); i += 2; continue
        if T(ch_eq(d, 36)): out.extend(pid_chars); i += 2; continue
        j = i + 1
        while j < n and T(is_name_char(text[j])): j += 1
        if j > i + 1:
            out.extend(lookup(text[i + 1:j])); i = j; continue
        out.append(c); i += 1
    return out

def body(inst, b):
    def h(I):
        p = I.prog
        I.env = models_env.Env(I, {}, unknown='unset')
        values = {}
        for v in inst['refs']:
            values[v] = [I.sym_char('v%s_%d' % (v, k)) for k in range(b['val_len'])]
            # the value may be shorter: an arbitrary prefix length
        vlen = {}
        for v in inst['refs']:
            ln = I.choose('len_' + v, b['val_len'] + 1)
            values[v] = values[v][:ln]; vlen[v] = ln
        status = I.sym_int('status', 32, 0, 255)
        text = []
        li = 0
        for s in inst['segs']:
            if s == 'L':
                text.append(I.sym_char('l%d' % li, exclude=LIT_EXCLUDE)); li += 1
            else:
                text.extend(lit(s))
        I.h_text = text; I.h_values = values
        sh = hlib.mk_shell(I, previous_status=status)
        envs = hlib.field(p, sh, 'envs')
        # where the CURRENT value lives: 0 shell variable table, 1 exported (process environment), 2 exported with an older
        # value still in the shell table (`A=old ; export A=new`): the expansion must see the exported one
        stores = {}
        for k, v in values.items():
            st_ = I.choose('store_' + k, 3) if len(inst['refs']) == 1 and len(inst['segs']) <= 2 else 0
            st_ = I.concretize(st_)
            stores[k] = st_
            if st_ == 0: envs.items.append([RString(lit(k)), RString(v)])
            else:
                I.env.vars.append([lit(k), tuple(v)])
                if st_ == 2: envs.items.append([RString(lit(k)), RString(lit('stale'))])
        I.h_stores = stores
        toks = hlib.tokens_value([(lit(inst['tag']), tuple(text))])
        cs = [sh]; ct = [toks]
        I.call_fn('expand_env', [Ref(cs, 0), Ref(ct, 0)])
        got = hlib.tokens_of(I, ct[0])
        I.h_got = got
        expect(I, len(got) == 1, 'token-count', None)
        res = got[0][1]
        if inst['tag'] == "'":
            want = list(text)
        else:
            want = reference(I, text, values, Lazy(lambda: int_to_chars(I, status)), Lazy(lambda: int_to_chars(I, I.env.getpid())))
        I.h_want = want
        ok = str_eq(tuple(res), tuple(want))
        m = I.ctx.violates(ok)
        if m is not None:
            found = [('expansion', m)]
            # is there also a violation when no referenced value contains `$`?  (the known fix-point rescan finding
            # must not mask anything else)
            nodollar = b_and(*[b_not_eq(c, 36) for v in values.values() for c in v])
            try:
                I.ctx.assume(nodollar)
                m2 = I.ctx.violates(ok)
                if m2 is not None: found.append(('expansion', m2))
            except Exception:
                pass
            raise Violation('expansion', m, detail=found)
        expect(I, str_eq(got[0][0], lit(inst['tag'])), 'tag-changed', None)
        return dict(result=res)
    return h

def b_not_eq(c, cp):
    e = ch_eq(c, cp)
    if e is True: return False
    if e is False: return True
    return z3.Not(e)

def native_expand(nat, tag, text, values, status, stores=None):
    stores = stores or {}
    args = []
    for k, v in values.items():
        st_ = stores.get(k, 0)
        if st_ == 0: args += ['unsetenv:' + k, 'shvar:%s=%s' % (k, v)]      # the native process keeps its environment between calls
        else:
            args.append('env:%s=%s' % (k, v))
            if st_ == 2: args.append('shvar:%s=stale' % k)
    args += ['status:%d' % status, tag, text]
    for k in VARS:
        if k not in values: args.insert(0, 'unsetenv:' + k)
    return nat.call('expand_env', *args)

def ref_concrete(text, values, status, pid):
    out = []; i = 0; n = len(text)
    isn = lambda ch: ch.isascii() and (ch.isalnum() or ch == '_')
    while i < n:
        c = text[i]
        if c != '$' or i + 1 >= n: out.append(c); i += 1; continue
        d = text[i + 1]
        if d == '{':
            j = i + 2
            while j < n and isn(text[j]): j += 1
            if j < n and text[j] == '}' and j > i + 2:
                out.append(values.get(text[i + 2:j], '')); i = j + 1; continue
            if i + 3 < n and text[i + 3] == '}' and text[i + 2] in '?$':
                out.append(str(status) if text[i + 2] == '?' else str(pid)); i += 4; continue
            out.append(c); i += 1; continue
        if d == '?': out.append(str(status)); i += 2; continue
        if d == '$': out.append(str(pid)); i += 2; continue
        j = i + 1
        while j < n and isn(text[j]): j += 1
        if j > i + 1: out.append(values.get(text[i + 1:j], '')); i = j; continue
        out.append(c); i += 1
    return ''.join(out)

def concretize(I, inst, m):
    text = explore.chars_to_str(m, I.h_text)
    values = {k: explore.chars_to_str(m, v) for k, v in I.h_values.items()}
    inputs = explore.model_inputs(I.ctx, m)
    return text, values, inputs.get('status', 0)

def run_instance(prog, inst, tier, seed, deadline):
    b = BOUNDS[tier]
    nat = nativemod.Native(timeout=5)
    try:
        def on_ok(l, I):
            if I.env.pid is not None: return None
            text, values, status = concretize(I, inst, l.model)
            if any('\x00' in v for v in values.values()) or any(st_ and ('=' in k) for k, st_ in I.h_stores.items()): return None
            try: got = native_expand(nat, inst['tag'], text, values, status, I.h_stores)
            except nativemod.NativeHang: return ('mismatch', dict(text=text, values=values, native='hang'))
            exp = [[explore.chars_to_str(l.model, t[0]), explore.chars_to_str(l.model, t[1])] for t in I.h_got]
            if got != exp: return ('mismatch', dict(text=text, values=values, symbolic=exp, native=got))
            return ('validated', 1)
        def on_violation(l, I):
            recs = []
            for label, m in (l.payload or [(l.msg, l.model)]):
                text, values, status = concretize(I, inst, m)
                rescanned = any('$' in v for v in values.values())
                key = 'value-rescanned' if rescanned else 'expansion:%s:%s' % ('+'.join(inst['segs']), inst['tag'] or 'plain')
                recs.append(dict(label=label, text=text, values=values, status=status, tag=inst['tag'], key=key, stores=getattr(I, 'h_stores', {}),
                                 observed=[explore.chars_to_str(m, t[1]) for t in I.h_got], expected=explore.chars_to_str(m, I.h_want)))
            first = recs[0]; first['more'] = recs[1:]
            return first
        def on_budget(l, I):
            if l.inputs is None: return None
            text, values, status = concretize(I, inst, l.model)
            try:
                native_expand(nat, inst['tag'], text, values, status)
                return None
            except nativemod.NativeHang:
                mutual = sum(1 for v in values.values() if '$' in v) >= 2
                return dict(label='hang', text=text, values=values, status=status, tag=inst['tag'],
                            key='hang:mutual-reference' if mutual else 'hang:%s' % '+'.join(inst['segs']))
        def on_panic(l, I):
            text, values, status = concretize(I, inst, l.model)
            return dict(label='crash:' + str(l.msg), text=text, values=values, status=status, tag=inst['tag'], key='crash:' + str(l.msg)[:40])
        res = hsupport.run_paths(prog, body(inst, b), deadline, on_ok=on_ok, on_violation=on_violation, on_budget=on_budget,
                                 on_panic=on_panic, step_budget=300_000)
        flat = []
        for v in res['violations']:
            more = v.pop('more', []); flat.append(v); flat.extend(more)
        res['violations'] = flat
        return res
    finally:
        nat.close()

def replay(v):
    nat = nativemod.Native(timeout=5)
    try:
        try:
            got = native_expand(nat, v['tag'], v['text'], v['values'], v['status'], v.get('stores'))
        except nativemod.NativeHang:
            return dict(witness=dict(token=v['text'], values=v['values']), native='hang', reproduced=True)
        if isinstance(got, dict):
            return dict(witness=dict(token=v['text'], values=v['values']), native=got, reproduced='panic' in got or 'crash' in got)
        want = v['text'] if v['tag'] == "'" else ref_concrete(v['text'], v['values'], v['status'], 0)
        res = got[0][1] if got else None
        if '$$' in v['text'] or '${$}' in v['text']:
            return dict(witness=v['text'], native=got, reproduced=False, note='pid-dependent')
        return dict(witness=dict(token=v['text'], tag=v['tag'], values=v['values']), expected=want, observed=res, reproduced=(res != want))
    finally:
        nat.close()

def replay_file(path):
    d = json.load(open(path))
    r = replay(d['violation'])
    print(json.dumps(r, indent=1, ensure_ascii=False))
    if r['reproduced']:
        print('VIOLATION property=%s replay=%s' % (PROPERTY, path)); return 1
    return 0

def finish(pid, tier, seed, results, known, wall, th, log):
    agg = hsupport.merge(results)
    hsupport.report_issues(agg, log)
    code, lines, new, nknown = hsupport.triage(pid, agg, known, lambda v: v['key'], replay, log)
    for ln in lines: print(ln)
    extra = dict(bounds=BOUNDS[tier], repo_tree=th, violating_paths=len(agg['violations']), new_violations=new, known_findings_reproduced=nknown)
    hsupport.write_evidence(pid, tier, seed, agg, wall, extra, ASSUMPTIONS, new)
    log('paths=%d queries=%d solver=%.1fs validated=%d violations(paths)=%d new=%d known=%d -> exit %d' % (
        agg['paths'], agg['queries'], agg['solver_s'], agg['validated'], len(agg['violations']), new, nknown, code))
    return code
