"""Shared OS-level harness for C02 (plumbing), C04 (redirections), C07 (process groups / terminal), C08 (descriptors).

Encoded (MIR): execute::run_proc -> CommandLine::from_line -> core::run_pipeline -> run_single_program (parent side and,
through the state-forking fork() of osmodel, the child side up to execve / process::exit), libs::{close,dup,dup2},
tools::{create_raw_fd_from_file,get_fd_from_file}, builtins::utils::{_get_std_fds,_get_dupped_std*_fd,print_stdout,
print_stderr}, builtins::minfd, shell::give_terminal_to.
Each instance is a line built from an explicit spec (stages, redirections), so the reference semantics (POSIX
left-to-right redirection on an abstract descriptor table) does not depend on cicada's own parsing."""
import itertools, json, os
import z3
import hsupport, hlib, explore, models_env, models_os, osmodel
from engine import (lit, Ref, Agg, RString, RVec, Slice, is_sym, str_eq, b_and, EndPath, OK, ERR, TUP, ProcessExit)
from explore import expect, conc, Violation

def st(prog, redirs=(), stdin=None, builtin=False, args=()):
    return dict(prog=prog, redirs=list(redirs), stdin=stdin, builtin=builtin, args=list(args))

def render(spec, spaced=True):
    parts = []
    for s in spec['stages']:
        w = [s['prog']] + list(s['args'])
        if s['stdin']:
            k, v = s['stdin']
            w.append(('< ' if k == 'file' else '<<< ') + v)
        for fd, op, tgt in s['redirs']:
            pre = '' if fd == 1 and spec.get('bare1', True) else str(fd)
            if tgt.startswith('&'): w.append('%s%s%s' % (pre, op, tgt))
            else: w.append(('%s%s %s' if spaced else '%s%s%s') % (pre, op, tgt))
        parts.append(' '.join(w))
    return ' | '.join(parts) + (' &' if spec.get('bg') else '')

def specs(family, tier):
    out = []
    def S(name, stages, **kw): out.append(dict(name=name, stages=stages, **kw))
    if family == 'pipe':
        for n in range(1, (4 if tier == 'quick' else 6)):
            S('ext%d' % n, [st('c%d' % i) for i in range(n)])
        S('ext2-bg', [st('c0'), st('c1')], bg=True)
        S('ext1-bg', [st('c0')], bg=True)
        S('ext2-notfound', [st('c0'), st('c1')], notfound=True)
        S('ext2-capture', [st('c0'), st('c1')], capture=True)
        S('ext1-capture', [st('c0')], capture=True)
        S('b-ext', [st('minfd', builtin=True), st('c1')])
        S('ext-b', [st('c0'), st('minfd', builtin=True)])
        S('ext-b-ext', [st('c0'), st('minfd', builtin=True), st('c2')])
        S('b', [st('minfd', builtin=True)])
        S('b-capture', [st('minfd', builtin=True)], capture=True)
        S('b-quiet', [st('alias', builtin=True)], quiet=True)            # a builtin with nothing to print (empty alias table)
        S('b-quiet-out', [st('alias', [(1, '>', 'f1')], builtin=True)], quiet=True)
        S('ext-b-quiet', [st('c0'), st('alias', builtin=True)], quiet=True)
    if family == 'redir':
        R = [
            ('out', [(1, '>', 'f1')]), ('app', [(1, '>>', 'f1')]), ('err', [(2, '>', 'f1')]), ('errapp', [(2, '>>', 'f1')]),
            ('e2o', [(2, '>', '&1')]), ('o2e', [(1, '>', '&2')]),
            ('out-e2o', [(1, '>', 'f1'), (2, '>', '&1')]), ('e2o-out', [(2, '>', '&1'), (1, '>', 'f1')]),
            ('out-err', [(1, '>', 'f1'), (2, '>', 'f2')]), ('out-out', [(1, '>', 'f1'), (1, '>', 'f2')]),
            ('o2e-err', [(1, '>', '&2'), (2, '>', 'f1')]), ('err-o2e', [(2, '>', 'f1'), (1, '>', '&2')]),
        ]
        if tier == 'thorough':
            R += [('out-e2o-err', [(1, '>', 'f1'), (2, '>', '&1'), (2, '>>', 'f2')]), ('e2o-o2e', [(2, '>', '&1'), (1, '>', '&2')]),
                  ('app-app', [(1, '>>', 'f1'), (2, '>>', 'f1')])]
        for nm, rs in R:
            for spaced in (True, False):
                if not spaced and all(t.startswith('&') for _, _, t in rs): continue
                tag = nm + ('' if spaced else '-tight')
                S('ext:' + tag, [st('c0', rs)], spaced=spaced)
                S('builtin:' + tag, [st('minfd', rs, builtin=True)], spaced=spaced)
                if spaced:
                    S('first:' + tag, [st('c0', rs), st('c1')])
                    S('last:' + tag, [st('c0'), st('c1', rs)])
                    S('mid:' + tag, [st('c0'), st('c1', rs), st('c2')])
                    S('lastb:' + tag, [st('c0'), st('minfd', rs, builtin=True)])
        S('ext:in', [st('c0', stdin=('file', 'f1'))])
        S('ext:here', [st('c0', stdin=('here', 'w0rd'))])
        S('last:in', [st('c0'), st('c1', stdin=('file', 'f1'))])
        S('first:here', [st('c0', stdin=('here', 'w0rd')), st('c1')])
        S('ext:in-out', [st('c0', [(1, '>', 'f2')], stdin=('file', 'f1'))])
        S('ext:out-1', [st('c0', [(1, '>', 'f1')])], bare1=False)
        S('ext:unopenable', [st('c0', [(1, '>', 'nodir/f1')])], unopenable='nodir/f1')
        S('builtin:unopenable', [st('minfd', [(1, '>', 'nodir/f1')], builtin=True)], unopenable='nodir/f1')
        S('ext:in-missing', [st('c0', stdin=('file', 'missing'))], unopenable='missing')
    return out

def reference_child(spec, k, capture):
    """objects a POSIX shell connects to fds 0,1,2 of stage k: symbolic names"""
    n = len(spec['stages'])
    s = spec['stages'][k]
    fin = ('tty', 'in') if k == 0 else ('pipe_r', k)
    fout = ('pipe_w', k + 1) if k < n - 1 else ('tty', 'out')
    ferr = ('tty', 'err')
    if capture and k == n - 1:
        fout = ('pipe_w', n); ferr = ('pipe_w', n + 1)
    if s['stdin']:
        kind, v = s['stdin']
        fin = ('file', v, 'r') if kind == 'file' else ('pipe_r', 'here')
    opens = []
    for fd, op, tgt in s['redirs']:
        if tgt == '&1':
            if fd == 2: ferr = fout
        elif tgt == '&2':
            if fd == 1: fout = ferr
        else:
            obj = ('file', tgt, 'a' if op == '>>' else 'w')
            opens.append(obj)
            if fd == 1: fout = obj
            else: ferr = obj
    return fin, fout, ferr, opens

def objkey(o, npipes_line, here_id=None):
    """normalise an osmodel FObj for comparison with reference_child"""
    if o is None: return None
    if o.kind == 'tty': return ('tty', o.ident)
    if o.kind in ('pipe_r', 'pipe_w'):
        if here_id is not None and o.ident == here_id: return ('pipe_r' if o.kind == 'pipe_r' else 'pipe_w', 'here')
        return (o.kind, o.ident)
    if o.kind == 'file':
        path = ''.join(chr(c) for c in o.ident)
        m = o.mode or ''
        return ('file', path, 'a' if m.startswith('a') else 'r' if m.startswith('r') else 'w')
    return (o.kind, o.ident)

def body(spec, opts):
    line = render(spec, spec.get('spaced', True))
    n = len(spec['stages'])
    capture = bool(spec.get('capture'))
    tty = opts.get('tty', True) and not capture
    def h(I):
        p = I.prog
        I.env = models_env.Env(I, {'HOME': '/home/u', 'PATH': '/bin'}, unknown='unset')
        extra = [fd for fd, on in zip(opts.get('extra_fds', ()), [I.choose('open%d' % fd, 2) for fd in opts.get('extra_fds', ())]) if on]
        os_ = osmodel.OS(I, extra_open=extra, faults=opts.get('faults', False), tty=True)
        I.os = os_
        os_.tcsetpgrp_may_fail = opts.get('tc_faults', False)
        if spec.get('unopenable'):
            bad = lit(spec['unopenable'])
            os_.fail_open = lambda path: True if tuple(path) == bad else False
        elif not opts.get('faults'):
            os_.fail_open = lambda path: False
        I.stubs['libc::getpid'] = lambda I_, a, c: os_.getpid()
        I.stubs['getpid'] = I.stubs['libc::getpid']
        def pipe_stub(I_, a, c):
            r = os_.pipe_pair(I)
            if r is None: return ERR(models_os.errno('EMFILE'))
            return OK(TUP(r[0], r[1]))
        I.stubs['pipes::pipe'] = pipe_stub; I.stubs['pipe'] = pipe_stub
        def find_stub(I_, a, c):
            name = I.str_of(a[0])
            if spec.get('notfound') and I.choose('notfound%d' % os_.nforks, 2) == 1: return RString()
            return RString(lit('/bin/') + tuple(name))
        I.stubs['find_file_in_path'] = find_stub; I.stubs['libs::path::find_file_in_path'] = find_stub; I.stubs['path::find_file_in_path'] = find_stub
        waited = []
        def wait_stub(I_, a, c):
            waited.append((I.deref(a[1]), list(I.list_of(a[2])), os_.tty_fg))
            status = I.sym_int('waitstatus', 32, 0, 255)
            return hlib.mk_struct(p, 'CommandResult', gid=I.deref(a[1]), status=status, stdout=RString(), stderr=RString())
        I.stubs['wait_fg_job'] = wait_stub; I.stubs['jobc::wait_fg_job'] = wait_stub
        os_.read_data = {}
        sh = hlib.mk_shell(I, has_terminal=True); cell = [sh]
        I.h_os = os_; I.h_line = line; I.h_waited = waited
        leaf = dict(role='shell')
        try:
            if capture:
                r = I.call_fn('types::CommandLine::from_line', [lit(line), Ref(cell, 0)])
                cl = [r.f[0]]
                res = I.call_fn('run_pipeline', [Ref(cell, 0), Ref(cl, 0), True, True, False])
                cr = res.f[1]
            else:
                cr = I.call_fn('run_proc', [Ref(cell, 0), lit(line), tty, False])
            leaf['status'] = hlib.field(p, cr, 'status')
            leaf['returned'] = True
        except EndPath as e:
            if e.reason != 'execve': raise
            leaf['exec'] = os_.exec
        except ProcessExit as e:
            leaf['exit'] = e.code
        leaf['role'] = os_.role
        I.h_leaf = leaf
        check(I, spec, opts, os_, leaf, waited, sh, tty, capture)
        return leaf
    return h

def check(I, spec, opts, os_, leaf, waited, sh, tty, capture):
    n = len(spec['stages'])
    faults_used = opts.get('faults') and os_.faults_left == 0
    role = leaf['role']
    if role == 'shell':
        # -------- the shell itself --------
        if 'exit' in leaf:
            expect(I, False, 'shell-exited', dict(code=str(leaf['exit'])))
        cur = os_.table(); ini = os_.initial
        leaked = sorted(fd for fd in cur if fd not in ini)
        lost = sorted(fd for fd in ini if fd not in cur)
        changed = sorted(fd for fd in ini if fd in cur and cur[fd] is not ini[fd])
        expect(I, not getattr(I, 'sigmask', None), 'shell-signal-mask-not-restored', dict(blocked=sorted(getattr(I, 'sigmask', ()))))
        expect(I, not leaked, 'shell-fd-leak', dict(leaked={fd: repr(cur[fd]) for fd in leaked}))
        expect(I, not lost and not changed, 'shell-fd-clobbered', dict(lost=lost, changed=changed))
        bad_target = spec.get('unopenable') and not any(s['builtin'] for s in spec['stages'])
        if not faults_used:
            nb = sum(1 for s in spec['stages'] if s['builtin'])
            single_builtin = n == 1 and nb == 1
            expect(I, os_.nforks == (0 if single_builtin else n), 'stage-start-count', dict(forks=os_.nforks, stages=n))
            # terminal: while waiting the job owns it, afterwards the shell does
            if tty and not spec.get('bg') and not single_builtin:
                expect(I, len(waited) == 1, 'foreground-not-waited', dict(waits=len(waited)))
                if waited:
                    g, pids, fg_at_wait = waited[0]
                    expect(I, g == os_.children[0] and pids == os_.children, 'waited-wrong-pids', dict(gid=g, pids=pids, children=os_.children))
                    expect(I, fg_at_wait == os_.children[0], 'terminal-not-given-to-job', dict(fg=fg_at_wait))
            if spec.get('bg'):
                expect(I, not any(c[0] == 'tcsetpgrp' and c[2] != os_.pgid[os_.shell_pid] for c in os_.calls), 'background-job-got-terminal', None)
                expect(I, len(waited) == 0, 'background-job-waited', None)
        expect(I, os_.tty_fg == os_.pgid[os_.shell_pid] or (opts.get('faults') and any(c[0] == 'tcsetpgrp' for c in os_.calls) and faults_used), 'terminal-not-returned', dict(fg=os_.tty_fg))
        if faults_used and os_.nforks == 0 and n > 1:
            st_ = leaf.get('status')
            expect(I, st_ != 0 if not is_sym(st_) else False, 'pipe-failure-status-zero', None)
        # here-string: the parent must have written word + newline into the here pipe and closed it
        for k, s in enumerate(spec['stages']):
            if s['stdin'] and s['stdin'][0] == 'here' and not faults_used:
                wr = [w for w in os_.wrote if w[0] is not None and w[0].kind == 'pipe_w']
                data = tuple(c for w in wr for c in w[2])
                expect(I, data == lit(s['stdin'][1] + '\n'), 'here-string-data', dict(written=''.join(chr(c) for c in data)))
        # single builtin: its output must have gone to the reference stdout object
        if n == 1 and spec['stages'][0]['builtin'] and not faults_used and not capture:
            fin, fout, ferr, opens = reference_child(spec, 0, False)
            if spec.get('unopenable'):
                st_ = leaf.get('status')
                expect(I, st_ != 0 if not is_sym(st_) else False, 'unopenable-target-status-zero', dict(status=str(st_)))
            else:
                wr = [objkey(w[0], n) for w in os_.wrote if w[2] and w[2] != lit('\n')]
                expect(I, wr == ([] if spec.get('quiet') else [fout]), 'builtin-output-target', dict(wrote=wr, want=fout))
                opened = [(''.join(chr(c) for c in pth), 'a' if m.startswith('a') else 'w') for pth, m, ok in os_.opened if pth != lit('/dev/null')]
                want_open = [(o[1], o[2]) for o in opens]
                expect(I, sorted(set(opened)) == sorted(set(want_open)), 'builtin-files-opened', dict(opened=opened, want=want_open))
        return
    # -------- a child --------
    k = role[1]
    s = spec['stages'][k]
    fin, fout, ferr, opens = reference_child(spec, k, capture)
    here_id = None
    if s['stdin'] and s['stdin'][0] == 'here':
        here_id = n if not capture else n + 2     # pipes are numbered in creation order: n-1 line pipes, (2 capture), then here pipes
        # several here pipes: id = base + index among here stages up to k
        base = (n - 1) + (2 if capture else 0)
        here_id = base + sum(1 for j in range(k + 1) if spec['stages'][j]['stdin'] and spec['stages'][j]['stdin'][0] == 'here')
    unopen = spec.get('unopenable')
    touches_bad = unopen and (any(t == unopen for _, _, t in s['redirs']) or (s['stdin'] and s['stdin'][1] == unopen))
    if 'exec' in leaf:
        ex = leaf['exec']
        expect(I, not touches_bad, 'ran-despite-unopenable-target', None)
        fds = ex['fds']
        extra = sorted(fd for fd in fds if fd > 2)
        expect(I, not getattr(I, 'sigmask', None), 'child-inherits-blocked-signals', dict(stage=k, blocked=sorted(getattr(I, 'sigmask', ()))))
        expect(I, not extra, 'child-inherits-fd', dict(stage=k, extra={fd: repr(fds[fd]) for fd in extra}))
        got = tuple(objkey(fds.get(i), n, here_id) for i in (0, 1, 2))
        expect(I, got[0] == fin, 'child-stdin', dict(stage=k, got=got[0], want=fin))
        expect(I, got[1] == fout, 'child-stdout', dict(stage=k, got=got[1], want=fout))
        expect(I, got[2] == ferr, 'child-stderr', dict(stage=k, got=got[2], want=ferr))
        opened = [(''.join(chr(c) for c in pth), 'r' if m.startswith('r') else 'a' if m.startswith('a') else 'w', ('t' in m), ('c' in m)) for pth, m, ok in os_.opened]
        want_open = [(o[1], o[2], o[2] == 'w', True) for o in opens] + ([(s['stdin'][1], 'r', False, False)] if s['stdin'] and s['stdin'][0] == 'file' else [])
        expect(I, sorted(opened) == sorted(want_open), 'files-opened', dict(opened=opened, want=want_open))
        argv = [''.join(chr(c) for c in a) for a in ex['argv']]
        expect(I, argv == [s['prog']] + s['args'], 'child-argv', dict(argv=argv))
        sp = [c for c in ex['calls'] if c[0] == 'setpgid']
        want_g = os_.shell_pid + 1
        expect(I, len(sp) == 1 and sp[0][2] == want_g, 'process-group', dict(stage=k, calls=sp, want=want_g))
    elif 'exit' in leaf:
        code = leaf['exit']
        if s['builtin'] and not touches_bad:
            wr = [objkey(w[0], n, here_id) for w in os_.wrote if w[2] and w[2] != lit('\n')]
            expect(I, wr == ([] if spec.get('quiet') else [fout]), 'builtin-output-target', dict(stage=k, wrote=wr, want=fout))
        elif touches_bad:
            expect(I, code != 0 if not is_sym(code) else False, 'unopenable-target-status-zero', None)
        elif spec.get('notfound'):
            expect(I, code == 127, 'not-found-status', dict(code=str(code)))
        elif not (opts.get('faults') and os_.faults_left == 0):
            expect(I, False, 'child-exited-without-exec', dict(stage=k, code=str(code)))
    else:
        expect(I, False, 'child-returned-into-shell-code', dict(stage=k))

def key_of(label, detail):
    return label

def run_instance(prog, inst, tier, seed, deadline):
    spec = inst['spec']; opts = inst['opts']
    def on_violation(l, I):
        os_ = I.h_os
        return dict(label=l.msg, line=I.h_line, spec_name=spec['name'], opts=opts, role=str(os_.role), detail=json.loads(json.dumps(l.payload, default=str)),
                    inputs=l.inputs, key='%s:%s:%s' % (l.msg, 'builtin' if any(s['builtin'] for s in spec['stages']) else 'ext', spec['name'].split(':')[-1].replace('-tight', '')))
    def on_panic(l, I):
        if l.status == 'exit': return None
        return dict(label='crash', line=I.h_line, spec_name=spec['name'], opts=opts, msg=l.msg, key='crash:' + str(l.msg)[:40], inputs=l.inputs)
    return hsupport.run_paths(prog, body(spec, opts), deadline, on_violation=on_violation, on_panic=on_panic, step_budget=800_000,
                              prefix=inst.get('_prefix'), split_depth=inst.get('_split'))

# ---------------------------------------------------------------------------------------------------------
# native oracle: the same spec through the real binary, stages are fdreport helpers (build/helpers/c0..c5)
import shutil, subprocess, tempfile
HELPERS = os.path.join(hsupport.VERIF, 'build/helpers')
CICADA = os.path.join(hsupport.VERIF, 'build/bin/debug/cicada')

def native_check(spec, nofile=None, timeout=15):
    d = tempfile.mkdtemp(prefix='cicada-verif-os-')
    try:
        out = os.path.join(d, 'reports.jsonl')
        for f in ('f1', 'f2'):
            open(os.path.join(d, f), 'w').write('OLD\n')
        line = render(spec, spec.get('spaced', True))
        if spec.get('capture'): line = 'c5 $(%s)' % line      # command substitution is what runs a pipeline with capture=true
        full = line + (' ; c4 ; minfd' if not spec.get('bg') else '')      # c4 inherits whatever the shell leaked; minfd = lowest free
        env = {'HOME': '/home/u', 'PATH': HELPERS, 'ARGV_OUT': out, 'LANG': 'C.UTF-8'}
        so = open(os.path.join(d, 'shell.out'), 'w'); se = open(os.path.join(d, 'shell.err'), 'w')
        cmd = [CICADA, '-c', full]
        if nofile: cmd = ['/bin/sh', '-c', 'ulimit -n %d; exec "$0" -c "$1"' % nofile, CICADA, full]
        try:
            p = subprocess.run(cmd, cwd=d, env=env, stdin=subprocess.DEVNULL, stdout=so, stderr=se, timeout=timeout, close_fds=True)
            rc = p.returncode
        except subprocess.TimeoutExpired:
            return dict(line=full, problems=['hang'], hang=True)
        so.close(); se.close()
        import time as _t; _t.sleep(0.05)
        reps = [json.loads(x) for x in open(out)] if os.path.exists(out) else []
        shell_out = open(os.path.join(d, 'shell.out')).read()
        shell_err = open(os.path.join(d, 'shell.err')).read()
        problems = []
        n = len(spec['stages'])
        byname = {}
        for r in reps: byname.setdefault(r['name'], []).append(r)
        def tgt(r, fd): return r['fds'].get(str(fd), [None, 0])
        unopen = spec.get('unopenable')
        for k, s in enumerate(spec['stages']):
            if s['builtin']: continue
            touches_bad = unopen and (any(t == unopen for _, _, t in s['redirs']) or (s['stdin'] and s['stdin'][1] == unopen))
            rs = byname.get(s['prog'], [])
            if touches_bad:
                if rs: problems.append('stage %d ran although its target cannot be opened' % k)
                continue
            if len(rs) != 1:
                problems.append('stage %d (%s) started %d times' % (k, s['prog'], len(rs))); continue
            r = rs[0]
            extra = sorted(int(fd) for fd in r['fds'] if int(fd) > 2)
            if extra: problems.append('stage %d inherited descriptors %s: %s' % (k, extra, {fd: r['fds'][str(fd)][0] for fd in extra}))
            fin, fout, ferr, opens = reference_child(spec, k, bool(spec.get('capture')))
            def want(ref, fdnum):
                t, fl = tgt(r, fdnum)
                if t is None: return 'fd %d closed' % fdnum
                if ref[0] == 'tty':
                    exp = {'in': '/dev/null', 'out': os.path.join(d, 'shell.out'), 'err': os.path.join(d, 'shell.err')}[ref[1]]
                    return None if t == exp else 'fd %d is %s, expected the shell\'s own %s' % (fdnum, t, exp)
                if ref[0] == 'file':
                    if not t.endswith('/' + ref[1]): return 'fd %d is %s, expected file %s' % (fdnum, t, ref[1])
                    if ref[2] == 'a' and not (fl & 0o2000): return 'fd %d (%s) not opened for append' % (fdnum, ref[1])
                    if ref[2] == 'w' and (fl & 0o2000): return 'fd %d (%s) opened for append' % (fdnum, ref[1])
                    return None
                if not t.startswith('pipe:'): return 'fd %d is %s, expected a pipe' % (fdnum, t)
                return None
            for ref, fdnum in ((fin, 0), (fout, 1), (ferr, 2)):
                w = want(ref, fdnum)
                if w: problems.append('stage %d: %s' % (k, w))
            if fout[0] == 'pipe_w' and k + 1 < n and not spec['stages'][k + 1]['builtin']:
                nx = byname.get(spec['stages'][k + 1]['prog'], [])
                if nx and tgt(nx[0], 0)[0] != tgt(r, 1)[0] and not spec['stages'][k + 1]['stdin']:
                    problems.append('stdout of stage %d (%s) is not stdin of stage %d (%s)' % (k, tgt(r, 1)[0], k + 1, tgt(nx[0], 0)[0]))
            if ferr == fout and tgt(r, 1)[0] != tgt(r, 2)[0]: problems.append('stage %d: 2>&1 but fd 2 is %s and fd 1 is %s' % (k, tgt(r, 2)[0], tgt(r, 1)[0]))
            for o in opens:
                pth = os.path.join(d, o[1])
                if not os.path.exists(pth): problems.append('target %s was not created' % o[1])
                elif o[2] == 'w' and open(pth).read().startswith('OLD') and not any(b_[1] == o[1] and b_[2] == 'a' for b_ in opens): problems.append('target %s was not truncated' % o[1])
                elif o[2] == 'a' and not open(pth).read().startswith('OLD') and o[1] in ('f1', 'f2') and not any(b_[1] == o[1] and b_[2] == 'w' for b_ in opens): problems.append('target %s was truncated by >>' % o[1])
            pg = [byname[s2['prog']][0]['pgid'] for s2 in spec['stages'] if not s2['builtin'] and s2['prog'] in byname]
        groups = set(r['pgid'] for r in reps)
        if not spec.get('bg'):
            for r in byname.get('c4', []):
                extra = sorted(int(fd) for fd in r['fds'] if int(fd) > 2)
                if extra: problems.append('after the line the shell still holds descriptors %s' % {fd: r['fds'][str(fd)][0] for fd in extra})
            last = shell_out.strip().split('\n')[-1] if shell_out.strip() else ''
            # with a builtin `minfd` as last stage of the line its output also lands here; the trailing `; minfd` is the probe
            if last != '3': problems.append('the shell\'s lowest free descriptor after the line is %r (expected 3): descriptors leaked or lost' % last)
        if n == 1 and spec['stages'][0]['builtin'] and not spec.get('capture') and not spec.get('unopenable'):
            fin, fout, ferr, opens = reference_child(spec, 0, False)
            def digits(pth):
                try: return [x for x in open(pth).read().split('\n') if x.strip().isdigit()]
                except OSError: return []
            sinks = {'shell.out': digits(os.path.join(d, 'shell.out')), 'shell.err': digits(os.path.join(d, 'shell.err'))}
            for f in ('f1', 'f2'): sinks[f] = digits(os.path.join(d, f))
            want_sink = 'shell.out' if fout == ('tty', 'out') else 'shell.err' if fout == ('tty', 'err') else fout[1]
            got = {k: len(v) - (1 if k == 'shell.out' else 0) for k, v in sinks.items()}     # the trailing probe prints one number to the shell's stdout
            where = sorted(k for k, c in got.items() if c > 0)
            if where != [want_sink]: problems.append('the builtin\'s output went to %s, expected %s' % (where or 'nowhere', want_sink))
        if spec.get('unopenable') and any(s['builtin'] for s in spec['stages']):
            env2 = dict(env); out2 = os.path.join(d, 'r2.jsonl'); env2['ARGV_OUT'] = out2
            subprocess.run([CICADA, '-c', line + ' && c3'], cwd=d, env=env2, stdin=subprocess.DEVNULL, stdout=subprocess.PIPE, stderr=subprocess.PIPE, timeout=timeout)
            if os.path.exists(out2) and any(json.loads(x)['name'] == 'c3' for x in open(out2)):
                problems.append('the builtin reported status 0 although its redirection target cannot be opened')
        created = sorted(set(os.listdir(d)) - {'f1', 'f2', 'reports.jsonl', 'shell.out', 'shell.err', 'r2.jsonl'})
        wanted = set(o[1] for k in range(n) for o in reference_child(spec, k, False)[3])
        stray = [c for c in created if c not in wanted]
        if stray: problems.append('unexpected files created: %s' % stray)
        return dict(line=full, status=rc, problems=problems, stderr=shell_err[-300:], reports=len(reps))
    finally:
        shutil.rmtree(d, ignore_errors=True)

def native_fault_probe(spec, nf, timeout=15):
    d = tempfile.mkdtemp(prefix='cicada-verif-osf-')
    try:
        line = render(spec, spec.get('spaced', True))
        full = 'ulimit -n %d ; %s ; ulimit -n 64 ; c4 ; minfd' % (nf, line)
        rep = os.path.join(d, 'reports.jsonl')
        env = {'HOME': '/home/u', 'PATH': HELPERS, 'LANG': 'C.UTF-8', 'ARGV_OUT': rep}
        try:
            p = subprocess.run([CICADA, '-c', full], cwd=d, env=env, stdin=subprocess.DEVNULL, stdout=subprocess.PIPE, stderr=subprocess.PIPE, timeout=timeout)
        except subprocess.TimeoutExpired:
            return dict(line=full, problems=['hang'])
        out = p.stdout.decode('utf-8', 'replace').strip().split('\n')
        err = p.stderr.decode('utf-8', 'replace')
        problems = []
        if p.returncode == 101 or 'panicked' in err: problems.append('the shell crashed: ' + err[-200:])
        elif out[-1] != '3': problems.append('after descriptor exhaustion (ulimit -n %d) the shell\'s lowest free descriptor is %r (expected 3)' % (nf, out[-1]))
        if os.path.exists(rep):
            for x in open(rep):
                r = json.loads(x)
                if r['name'] == 'c4':
                    extra = sorted(int(fd) for fd in r['fds'] if int(fd) > 2)
                    if extra: problems.append('after descriptor exhaustion (ulimit -n %d) the shell still holds descriptors %s' % (nf, {fd: r['fds'][str(fd)][0] for fd in extra}))
        return dict(line=full, status=p.returncode, problems=problems, stderr=err[-300:])
    finally:
        shutil.rmtree(d, ignore_errors=True)

def replay(v):
    spec = None
    for fam in ('pipe', 'redir'):
        for s in specs(fam, 'thorough'):
            if s['name'] == v['spec_name']: spec = s
    if spec is None: return dict(reproduced=False, note='spec not found')
    r = native_check(spec)
    if not r['problems'] and v.get('opts', {}).get('faults'):
        # descriptor exhaustion: lower the limit with the shell's own `ulimit -n K`, run the line, raise it again, probe
        for nf in range(3, 16):
            r = native_fault_probe(spec, nf)
            if r['problems']: r['nofile'] = nf; break
    r['witness'] = r['line']; r['reproduced'] = bool(r['problems'])
    return r
