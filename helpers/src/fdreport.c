/* fdreport: appends one JSON line to $ARGV_OUT describing this process: name, argv, pgid, and what every open
   descriptor 0..63 refers to (readlink of /proc/self/fd/N).  Optional behaviour from the name's suffix-free argv:
   exits with status $FDREPORT_STATUS (default 0); copies stdin to stdout when argv[1] == "--cat". */
#include <stdio.h>
#include <stdlib.h>
#include <string.h>
#include <unistd.h>
#include <fcntl.h>
#include <libgen.h>
int main(int argc, char **argv) {
    char buf[8192]; size_t n = 0;
    char link[64], tgt[512];
    n += snprintf(buf + n, sizeof buf - n, "{\"name\":\"%s\",\"pid\":%d,\"pgid\":%d,\"argv\":[", basename(argv[0]), (int)getpid(), (int)getpgrp());
    for (int i = 0; i < argc; i++) {
        n += snprintf(buf + n, sizeof buf - n, "%s\"", i ? "," : "");
        for (char *p = argv[i]; *p && n < sizeof buf - 8; p++) {
            if (*p == '"' || *p == '\\') buf[n++] = '\\';
            if ((unsigned char)*p < 0x20) { n += snprintf(buf + n, sizeof buf - n, "\\u%04x", *p); continue; }
            buf[n++] = *p;
        }
        n += snprintf(buf + n, sizeof buf - n, "\"");
    }
    n += snprintf(buf + n, sizeof buf - n, "],\"fds\":{");
    int first = 1;
    for (int fd = 0; fd < 64; fd++) {
        snprintf(link, sizeof link, "/proc/self/fd/%d", fd);
        ssize_t k = readlink(link, tgt, sizeof tgt - 1);
        if (k < 0) continue;
        tgt[k] = 0;
        int fl = fcntl(fd, F_GETFL);
        n += snprintf(buf + n, sizeof buf - n, "%s\"%d\":[\"%s\",%d]", first ? "" : ",", fd, tgt, fl);
        first = 0;
    }
    n += snprintf(buf + n, sizeof buf - n, "}}\n");
    const char *out = getenv("ARGV_OUT");
    if (out) {
        int o = open(out, O_WRONLY | O_APPEND | O_CREAT | O_CLOEXEC, 0644);
        if (o >= 0) { write(o, buf, n); close(o); }
    }
    if (argc > 1 && strcmp(argv[1], "--cat") == 0) {
        char b[4096]; ssize_t r;
        while ((r = read(0, b, sizeof b)) > 0) write(1, b, r);
    }
    const char *st = getenv("FDREPORT_STATUS");
    return st ? atoi(st) : 0;
}
