"""Throwaway probe: KLEE-style symbolic interpreter over rustc MIR text.
Strings/Vecs have concrete shape (python tuples), chars/ints may be z3 terms."""
import re, sys, time
import z3
import mir
import rx

class Ref(tuple): pass
class Enum(tuple): pass
class Tup(tuple): pass
class Panic(Exception): pass
class Unsupported(Exception): pass

class Ctx:
    def __init__(self, raw):
        self.raw = raw; self.fns = {}
        self.solver = z3.Solver()
        self.nq = 0; self.tq = 0.0
        self.paths = 0
        self.steps = 0
    def fn(self, name):
        if name not in self.fns:
            if name not in self.raw: return None
            na, ret, body = self.raw[name]
            self.fns[name] = mir.parse_body(name, na, ret, body)
        return self.fns[name]
    def check(self, *extra):
        self.nq += 1; t = time.time()
        r = self.solver.check(*extra)
        self.tq += time.time() - t
        return r

def is_sym(v): return isinstance(v, z3.ExprRef)

def ch_eq(a, b):
    if not is_sym(a) and not is_sym(b): return a == b
    if not is_sym(a): a = z3.BitVecVal(a, 32)
    if not is_sym(b): b = z3.BitVecVal(b, 32)
    return a == b

def str_eq(a, b):
    if len(a) != len(b): return False
    conds = []
    for x, y in zip(a, b):
        e = ch_eq(x, y)
        if e is False: return False
        if e is True: continue
        conds.append(e)
    if not conds: return True
    return z3.And(*conds) if len(conds) > 1 else conds[0]

def b_not(x):
    if isinstance(x, bool): return not x
    return z3.Not(x)

def parse_const(s, ty=None):
    s = s.strip()
    if s == 'true': return True
    if s == 'false': return False
    if s == '()': return ()
    m = re.match(r'(-?\d+)_(\w+)$', s)
    if m: return int(m.group(1))
    if s.startswith('"'):
        return tuple(ord(c) for c in eval(s_rust_to_py(s)))
    if s.startswith("'"):
        return ord(eval(s_rust_to_py(s)))
    if s.startswith('b"'):
        return ('bytes', eval('b' + s_rust_to_py(s[1:])))
    if s.startswith('ZeroSized'): return ('zst', s)
    raise Unsupported('const ' + s)

def s_rust_to_py(s):
    # convert rust escapes \u{..} to python
    s = re.sub(r'\\u\{([0-9a-fA-F]+)\}', lambda m: '\\U%08x' % int(m.group(1), 16), s)
    return s

class Frame:
    __slots__ = ('fn', 'locals', 'bb', 'ip', 'dest', 'ret_bb')
    def __init__(self, fn, locals_, dest=None, ret_bb=None):
        self.fn = fn; self.locals = locals_; self.bb = 0; self.ip = 0; self.dest = dest; self.ret_bb = ret_bb
    def copy(self):
        f = Frame(self.fn, dict(self.locals), self.dest, self.ret_bb); f.bb = self.bb; f.ip = self.ip; return f

class State:
    def __init__(self, frames): self.frames = frames
    def copy(self): return State([f.copy() for f in self.frames])

# ---- place access over immutable values ----
def get_proj(v, proj, st):
    for i, p in enumerate(proj):
        k = p[0]
        if k == 'deref':
            if isinstance(v, Ref):
                _, fi, loc, pr = v
                v = get_proj(st.frames[fi].locals[loc], pr, st)
            # &str / String values are stored by value: deref is identity
        elif k == 'field':
            if isinstance(v, Enum): v = v[2][p[1]]
            elif isinstance(v, Tup): v = v[1][p[1]]
            else: raise Unsupported('field of %r' % (v,))
        elif k == 'downcast':
            pass
        elif k == 'vidx':
            v = v[p[1]]
        else:
            raise Unsupported('proj ' + k)
    return v

def set_proj(v, proj, new, st):
    if not proj: return new
    p = proj[0]; k = p[0]
    if k == 'deref':
        if isinstance(v, Ref):
            _, fi, loc, pr = v
            write_place(st, fi, loc, pr + proj[1:], new)
            return v
        return set_proj(v, proj[1:], new, st)
    if k == 'field':
        if isinstance(v, Tup):
            items = list(v[1]); items[p[1]] = set_proj(items[p[1]], proj[1:], new, st); return Tup(('tup', tuple(items)))
        if isinstance(v, Enum):
            items = list(v[2]); items[p[1]] = set_proj(items[p[1]], proj[1:], new, st); return Enum(('enum', v[1], tuple(items)))
    if k == 'downcast': return set_proj(v, proj[1:], new, st)
    if k == 'vidx':
        items = list(v); items[p[1]] = set_proj(items[p[1]], proj[1:], new, st); return tuple(items)
    raise Unsupported('set proj ' + k)

def write_place(st, fi, loc, proj, new):
    fr = st.frames[fi]
    if not proj: fr.locals[loc] = new
    else: fr.locals[loc] = set_proj(fr.locals.get(loc), proj, new, st)

DISCR = {'None': 0, 'Some': 1, 'Ok': 0, 'Err': 1}

class Interp:
    def __init__(self, ctx):
        self.ctx = ctx
        self.results = []   # (pathcond-model?, retval)
        self.on_leaf = None

    def operand(self, st, op):
        k = op[0]
        if k == 'const':
            c = op[1]
            m = re.search(r'promoted\[(\d+)\]$', c)
            if m:
                fr = st.frames[-1]
                name = fr.fn.name + '::promoted[%s]' % m.group(1)
                f = self.ctx.fn(name)
                # evaluate trivially: promoted of &&str: const "x"
                body = self.ctx.raw[name][2]
                mm = re.search(r'_1 = const (".*");', body)
                if mm: return parse_const(mm.group(1))
                raise Unsupported('promoted ' + name)
            return parse_const(c)
        loc, proj = op[1]
        fr = st.frames[-1]
        return get_proj(fr.locals[loc], proj, st)

    def run(self, st):
        """DFS over paths; st is owned."""
        ctx = self.ctx
        while True:
            fr = st.frames[-1]
            stmt = fr.fn.blocks[fr.bb][fr.ip]
            ctx.steps += 1
            k = stmt[0]
            if k == 'assign':
                _, (loc, proj), rv = stmt
                val = self.rvalue(st, rv)
                write_place(st, len(st.frames) - 1, loc, proj, val)
                fr.ip += 1
            elif k == 'nop': fr.ip += 1
            elif k == 'goto': fr.bb = stmt[1]; fr.ip = 0
            elif k == 'switch':
                v = self.operand(st, stmt[1])
                if isinstance(v, bool): v = int(v)
                if isinstance(v, int):
                    tgt = stmt[3]
                    for val, b in stmt[2]:
                        if val == v: tgt = b
                    fr.bb = tgt; fr.ip = 0
                else:
                    # symbolic bool (z3 BoolRef) or bv
                    alts = []
                    if z3.is_bool(v):
                        for val, b in stmt[2]:
                            alts.append((v if val else z3.Not(v), b))
                        if stmt[3] is not None:
                            seen = [val for val, _ in stmt[2]]
                            if 0 in seen and 1 not in seen: alts.append((v, stmt[3]))
                            elif 1 in seen and 0 not in seen: alts.append((z3.Not(v), stmt[3]))
                    else:
                        for val, b in stmt[2]: alts.append((v == val, b))
                        if stmt[3] is not None:
                            alts.append((z3.And(*[v != val for val, _ in stmt[2]]), stmt[3]))
                    feas = []
                    for cond, b in alts:
                        if ctx.check(cond) == z3.sat: feas.append((cond, b))
                    if len(feas) == 1:
                        fr.bb = feas[0][1]; fr.ip = 0
                        continue
                    for cond, b in feas:
                        st2 = st.copy()
                        st2.frames[-1].bb = b; st2.frames[-1].ip = 0
                        ctx.solver.push(); ctx.solver.add(cond)
                        self.run(st2)
                        ctx.solver.pop()
                    return
            elif k == 'call':
                _, dest, fname, args, ret_bb = stmt
                argv = [self.operand(st, a) for a in args]
                try:
                    self.call(st, dest, fname, argv, ret_bb)
                except ForkDone:
                    return
            elif k == 'return':
                rv = fr.locals.get(0)
                st.frames.pop()
                if not st.frames:
                    ctx.paths += 1
                    if self.on_leaf: self.on_leaf(rv)
                    return
                caller = st.frames[-1]
                loc, proj = fr.dest
                write_place(st, len(st.frames) - 1, loc, proj, rv)
                caller.bb = fr.ret_bb; caller.ip = 0
            elif k == 'assert':
                _, neg, op, msg, succ = stmt
                v = self.operand(st, op)
                if neg: v = b_not(v)
                if v is True: fr.bb = succ; fr.ip = 0
                elif v is False: raise Panic(msg)
                else:
                    if ctx.check(z3.Not(v)) == z3.sat:
                        raise Panic(msg + ' model=' + str(ctx.solver.model()))
                    fr.bb = succ; fr.ip = 0
            elif k == 'unreachable':
                raise Panic('unreachable reached')
            else:
                raise Unsupported('stmt ' + k)

    def rvalue(self, st, rv):
        k = rv[0]
        if k == 'use': return self.operand(st, rv[1])
        if k == 'ref':
            loc, proj = rv[1]
            # reborrow through deref of a ref: resolve to target
            if proj and proj[-1] == ('deref',) :
                v = get_proj(st.frames[-1].locals[loc], proj[:-1], st)
                if isinstance(v, Ref): return v
                return v  # by-value str
            return Ref(('ref', len(st.frames) - 1, loc, proj))
        if k == 'binop':
            a = self.operand(st, rv[2]); b = self.operand(st, rv[3]); op = rv[1]
            return self.binop(op, a, b)
        if k == 'unop':
            a = self.operand(st, rv[2])
            if rv[1] == 'Not': return b_not(a) if isinstance(a, bool) or z3.is_bool(a) else ~a
            raise Unsupported('unop ' + rv[1])
        if k == 'discr':
            loc, proj = rv[1]
            v = get_proj(st.frames[-1].locals[loc], proj, st)
            return DISCR[v[1]]
        if k == 'tuple': return Tup(('tup', tuple(self.operand(st, o) for o in rv[1])))
        if k == 'array': return Tup(('tup', tuple(self.operand(st, o) for o in rv[1])))
        if k == 'variant':
            name = rv[1].split('::')[-1]
            return Enum(('enum', name, tuple(self.operand(st, o) for o in rv[2])))
        if k == 'cast': return self.operand(st, rv[1])
        if k == 'struct': return Enum(('enum', rv[1], tuple(self.operand(st, o) for _, o in rv[2])))
        raise Unsupported('rvalue ' + k)

    def binop(self, op, a, b):
        sym = is_sym(a) or is_sym(b)
        if sym:
            if not is_sym(a): a = z3.BitVecVal(a, b.size())
            if not is_sym(b): b = z3.BitVecVal(b, a.size())
        if op == 'Eq': return a == b
        if op == 'Ne': return (a != b) if not sym else a != b
        if op == 'Lt': return a < b if not sym else z3.ULT(a, b)
        if op == 'Le': return a <= b if not sym else z3.ULE(a, b)
        if op == 'Gt': return a > b if not sym else z3.UGT(a, b)
        if op == 'Ge': return a >= b if not sym else z3.UGE(a, b)
        if op in ('Add', 'AddUnchecked'): return a + b
        if op in ('Sub', 'SubUnchecked'): return a - b
        if op == 'AddWithOverflow':
            r = a + b; return Tup(('tup', (r, r >= 2**64)))
        if op == 'SubWithOverflow':
            r = a - b; return Tup(('tup', (r, r < 0)))
        raise Unsupported('binop ' + op)

    def ret(self, st, dest, val, ret_bb):
        loc, proj = dest
        write_place(st, len(st.frames) - 1, loc, proj, val)
        fr = st.frames[-1]; fr.bb = ret_bb; fr.ip = 0

    def deref(self, st, v):
        while isinstance(v, Ref):
            _, fi, loc, pr = v
            v = get_proj(st.frames[fi].locals[loc], pr, st)
        return v

    def store(self, st, ref, new):
        _, fi, loc, pr = ref
        write_place(st, fi, loc, pr, new)

    def call(self, st, dest, fname, argv, ret_bb):
        f = self.ctx.fn(fname)
        if f is not None and fname in CRATE_FNS:
            fr = Frame(f, {i + 1: a for i, a in enumerate(argv)}, dest, ret_bb)
            st.frames.append(fr)
            return
        D = lambda v: self.deref(st, v)
        R = lambda val: self.ret(st, dest, val, ret_bb)
        n = fname
        if n in ('std::string::String::new',) or re.match(r'Vec::<.*>::new$', n): return R(())
        if n == 'core::str::<impl str>::chars': return R(('chars', D(argv[0]), 0))
        if n == "<Chars<'_> as Iterator>::count":
            it = argv[0]; return R(len(it[1]) - it[2])
        if n == "<Chars<'_> as Iterator>::enumerate": return R(('enum_it', argv[0], 0))
        if n.endswith('as IntoIterator>::into_iter'): return R(argv[0])
        if n == "<Enumerate<Chars<'_>> as Iterator>::next":
            it = D(argv[0]); _, inner, cnt = it; _, s, pos = inner
            if pos >= len(s): return R(Enum(('enum', 'None', ())))
            self.store(st, argv[0], ('enum_it', ('chars', s, pos + 1), cnt + 1))
            return R(Enum(('enum', 'Some', (Tup(('tup', (cnt, s[pos]))),))))
        if n == "<Chars<'_> as Iterator>::nth":
            it = D(argv[0]); _, s, pos = it; k = argv[1]
            if pos + k >= len(s):
                self.store(st, argv[0], ('chars', s, len(s))); return R(Enum(('enum', 'None', ())))
            self.store(st, argv[0], ('chars', s, pos + k + 1))
            return R(Enum(('enum', 'Some', (s[pos + k],))))
        if n == 'std::string::String::push':
            s = D(argv[0]); self.store(st, argv[0], s + (argv[1],)); return R(())
        if n == 'std::string::String::is_empty' or re.match(r'Vec::<.*>::is_empty$', n): return R(len(D(argv[0])) == 0)
        if n in ('<std::string::String as PartialEq<&str>>::ne', '<std::string::String as PartialEq>::ne', '<&str as PartialEq>::ne'):
            return R(b_not(str_eq(D(argv[0]), D(argv[1]))))
        if n in ('<std::string::String as PartialEq>::eq', '<std::string::String as PartialEq<&str>>::eq'):
            return R(str_eq(D(argv[0]), D(argv[1])))
        if n == '<char as ToString>::to_string': return R((D(argv[0]),))
        if n in ('<std::string::String as Deref>::deref', '<str as ToString>::to_string', '<std::string::String as From<&str>>::from', 'must_use::<std::string::String>'):
            return R(D(argv[0]))
        if n == 'core::str::<impl str>::trim':
            return self.trim(st, D(argv[0]), R)
        if re.match(r'Vec::<.*>::push$', n):
            v = D(argv[0]); self.store(st, argv[0], v + (argv[1],)); return R(())
        if n == "core::fmt::rt::Argument::<'_>::new_display::<char>": return R(('fmtarg', (D(argv[0]),)))
        if n.startswith("core::fmt::rt::Argument::<'_>::new_display"): return R(('fmtarg', D(argv[0])))
        if n.startswith("Arguments::<'_>::from_str"): return R(('fmt', argv[0]))
        if n.startswith("Arguments::<'_>::new::<"):
            tpl = argv[0][1]; args = D(argv[1])[1]
            out = (); i = 0; ai = 0
            while tpl[i] != 0:
                b = tpl[i]
                if b < 0x80:
                    out += tuple(tpl[i + 1:i + 1 + b]); i += 1 + b
                elif b == 0xC0:
                    out += args[ai][1]; ai += 1; i += 1
                else: raise Unsupported('fmt template byte %x' % b)
            return R(('fmt', out))
        if n == 'format': return R(argv[0][1])
        if n == 'std::io::_print': return R(())
        if n == 'regex::Regex::new':
            return R(Enum(('enum', 'Ok', (('regex', ''.join(chr(c) for c in D(argv[0]))),))))
        if n == 'regex::Regex::is_match':
            return R(rx.is_match(D(argv[0])[1], D(argv[1])))
        if n.startswith("core::fmt::rt::Argument::<'_>::new_debug"): return R(('fmtarg', ()))
        if re.match(r'Vec::<.*>::len$', n) or n == 'std::string::String::len': return R(len(D(argv[0])))
        if re.match(r'<Vec<.*> as Index<usize>>::index$', n):
            v = D(argv[0]); i = argv[1]
            if i >= len(v): raise Panic('index out of bounds')
            r0 = argv[0]
            return R(Ref(('ref', r0[1], r0[2], r0[3] + [('vidx', i)])))
        if n.endswith(' as Clone>::clone') or n == '<std::string::String as ToString>::to_string': return R(D(argv[0]))
        if n == "core::fmt::rt::Argument::<'_>::new_display::<char>": return R(('fmtarg', (D(argv[0]),)))
        if re.match(r'Option::<.*>::unwrap$', n):
            v = argv[0]
            if v[1] == 'None': raise Panic('unwrap on None')
            return R(v[2][0])
        if n == 'LineInfo::new': return R(Enum(('enum', 'LineInfo', (argv[0], True))))
        if n == "core::str::<impl str>::split::<char>": return R(('split', D(argv[0]), argv[1], 0, False))
        if n == "<std::str::Split<'_, char> as Iterator>::next":
            _, sv, sepc, pos, done = D(argv[0])
            if done: return R(Enum(('enum', 'None', ())))
            # arithmetic lines only; require concrete decision
            j = pos
            while j < len(sv):
                e = ch_eq(sv[j], sepc)
                if e is True: break
                if e is not False:
                    raise Unsupported('symbolic split')
                j += 1
            if j >= len(sv):
                self.store(st, argv[0], ('split', sv, sepc, j, True))
            else:
                self.store(st, argv[0], ('split', sv, sepc, j + 1, False))
            return R(Enum(('enum', 'Some', (sv[pos:j],))))
        raise Unsupported('call ' + n)

    def trim(self, st, s, R):
        # whitespace trim with symbolic chars: fork on each boundary char being whitespace
        ctx = self.ctx
        def is_ws(c):
            if not is_sym(c): return chr(c).isspace()
            return z3.Or(c == 32, z3.And(z3.UGE(c, 9), z3.ULE(c, 13)))
        # iterative concretisation: find first non-ws from left
        lo = 0; hi = len(s)
        def decide(cond):
            if isinstance(cond, bool): return [(cond, None)]
            outs = []
            if ctx.check(cond) == z3.sat: outs.append((True, cond))
            if ctx.check(z3.Not(cond)) == z3.sat: outs.append((False, z3.Not(cond)))
            return outs
        # To keep the probe simple: resolve decisions one at a time by forking the whole state.
        while lo < hi:
            outs = decide(is_ws(s[lo]))
            if len(outs) == 2:
                return self.fork_trim(st, s, lo, hi, 'lo', outs, R)
            if outs[0][0]: lo += 1
            else: break
        while hi > lo:
            outs = decide(is_ws(s[hi - 1]))
            if len(outs) == 2:
                return self.fork_trim(st, s, lo, hi, 'hi', outs, R)
            if outs[0][0]: hi -= 1
            else: break
        return R(s[lo:hi])

    def fork_trim(self, st, s, lo, hi, side, outs, R):
        # fork: add constraint and retry the same call statement in each branch
        ctx = self.ctx
        for val, cond in outs:
            st2 = st.copy()
            ctx.solver.push(); ctx.solver.add(cond)
            self.run(st2)   # re-executes the call stmt (ip unchanged) under the added constraint
            ctx.solver.pop()
        raise ForkDone()

class ForkDone(Exception): pass

CRATE_FNS = set()
