"""Throwaway probe: parser for rustc -Zunpretty=mir text."""
import re

class Fn:
    def __init__(self, name, args, ret, locals_, blocks, nargs):
        self.name = name; self.args = args; self.ret = ret
        self.locals = locals_; self.blocks = blocks; self.nargs = nargs

def split_top(s, sep=','):
    out = []; depth = 0; cur = []; i = 0; n = len(s); instr = None
    while i < n:
        c = s[i]
        if instr:
            cur.append(c)
            if c == '\\':
                cur.append(s[i+1]); i += 2; continue
            if c == instr: instr = None
            i += 1; continue
        if c == '"':
            instr = '"'; cur.append(c); i += 1; continue
        if c == "'" :
            # char literal or lifetime: char literal if closes within 12 chars as '\..' or 'x'
            m = re.match(r"'(\\u\{[0-9a-fA-F]+\}|\\.|[^\\'])'", s[i:])
            if m:
                cur.append(m.group(0)); i += len(m.group(0)); continue
            cur.append(c); i += 1; continue
        if c in '([{<':
            # '<' only counts as bracket in type context; treat generically but guard ' < '
            if c == '<' and (i + 1 < n and s[i+1] in ' =') :
                cur.append(c); i += 1; continue
            depth += 1
        elif c in ')]}>':
            if c == '>' and i > 0 and s[i-1] in '-=':
                cur.append(c); i += 1; continue
            depth -= 1
        if c == sep and depth == 0:
            out.append(''.join(cur).strip()); cur = []
        else:
            cur.append(c)
        i += 1
    t = ''.join(cur).strip()
    if t: out.append(t)
    return out

def parse_place(s):
    """returns (local:int, proj:list). proj items: ('deref',), ('field',n), ('downcast',name), ('index',local), ('constindex',n)"""
    s = s.strip()
    p, rest = _place(s)
    assert rest.strip() == '', (s, rest)
    return p

def _skip_type(s):
    # s starts right after ': ', skip until matching ')' at depth 0
    depth = 0; i = 0
    while i < len(s):
        c = s[i]
        if c in '(<[{': depth += 1
        elif c in ')>]}':
            if c == '>' and i > 0 and s[i-1] == '-':
                i += 1; continue
            if depth == 0: return s[i:]
            depth -= 1
        i += 1
    raise ValueError(s)

def _place(s):
    if s[0] == '_':
        m = re.match(r'_(\d+)', s)
        base = (int(m.group(1)), []); rest = s[m.end():]
    elif s.startswith('(*'):
        inner, rest = _place(s[2:])
        assert rest[0] == ')', (s, rest)
        base = (inner[0], inner[1] + [('deref',)]); rest = rest[1:]
    elif s[0] == '(':
        inner, rest = _place(s[1:])
        if rest.startswith(' as '):
            m = re.match(r' as (\w+)\)', rest)
            base = (inner[0], inner[1] + [('downcast', m.group(1))]); rest = rest[m.end():]
        elif rest[0] == '.':
            m = re.match(r'\.(\d+): ', rest)
            after = _skip_type(rest[m.end():])
            assert after[0] == ')'
            base = (inner[0], inner[1] + [('field', int(m.group(1)))]); rest = after[1:]
        else:
            raise ValueError(s)
    else:
        raise ValueError(s)
    while rest and rest[0] == '[':
        m = re.match(r'\[_(\d+)\]', rest)
        if m:
            base = (base[0], base[1] + [('index', int(m.group(1)))]); rest = rest[m.end():]; continue
        m = re.match(r'\[(\d+) of (\d+)\]', rest)
        if m:
            base = (base[0], base[1] + [('constindex', int(m.group(1)))]); rest = rest[m.end():]; continue
        break
    return base, rest

def parse_operand(s):
    s = s.strip()
    if s.startswith('no_retag '): s = s[9:]
    if s.startswith('copy '): return ('copy', parse_place(s[5:]))
    if s.startswith('move '): return ('move', parse_place(s[5:]))
    if s.startswith('const '): return ('const', s[6:])
    raise ValueError('operand: ' + s)

BINOPS = {'Eq','Ne','Lt','Le','Gt','Ge','Add','Sub','Mul','Div','Rem','BitAnd','BitOr','BitXor','Shl','Shr',
          'AddWithOverflow','SubWithOverflow','MulWithOverflow','Offset','AddUnchecked','SubUnchecked','MulUnchecked','Cmp'}
UNOPS = {'Not','Neg','PtrMetadata'}

def parse_rvalue(s):
    s = s.strip()
    if s.startswith('no_retag '): s = s[9:]
    m = re.match(r'(\w+)\((.*)\)$', s)
    if m and m.group(1) in BINOPS:
        a, b = split_top(m.group(2))
        return ('binop', m.group(1), parse_operand(a), parse_operand(b))
    if m and m.group(1) in UNOPS:
        return ('unop', m.group(1), parse_operand(m.group(2)))
    if s.startswith('discriminant('):
        return ('discr', parse_place(s[13:-1]))
    if s.startswith('&mut '): return ('ref', parse_place(s[5:]))
    if s.startswith('&raw '): return ('ref', parse_place(s.split(' ', 2)[2]))
    if s.startswith('&'): return ('ref', parse_place(s[1:]))
    if s.startswith(('copy ', 'move ', 'const ')):
        m2 = re.match(r'(.*) as (.+) \((\w+(?:\(.*\))?)\)$', s)
        if m2 and not s.startswith('const "'):
            return ('cast', parse_operand(m2.group(1)), m2.group(2), m2.group(3))
        return ('use', parse_operand(s))
    if s.startswith('(') and s.endswith(')'):
        return ('tuple', [parse_operand(x) for x in split_top(s[1:-1])])
    if s == '()':
        return ('tuple', [])
    if s.startswith('[') and s.endswith(']'):
        return ('array', [parse_operand(x) for x in split_top(s[1:-1])])
    # aggregates: Path::Variant(args) | Path { f: a, .. } | Path::Variant
    m = re.match(r'(.+?)\s*\{(.*)\}$', s)
    if m and not s.startswith('{closure'):
        fields = []
        for f in split_top(m.group(2)):
            k, v = f.split(': ', 1)
            fields.append((k.strip(), parse_operand(v)))
        return ('struct', m.group(1).strip(), fields)
    m = re.match(r'(.+?)\((.*)\)$', s)
    if m:
        return ('variant', m.group(1), [parse_operand(x) for x in split_top(m.group(2))])
    return ('variant', s, [])

def parse_fn_bodies(txt):
    fns = {}
    # functions start with '^fn ' or '^const ' / 'static' (promoteds: 'const X::promoted[0]: T = {')
    pos = [m.start() for m in re.finditer(r'^(?:fn |const |static |promoted\[)', txt, re.M)]
    pos.append(len(txt))
    for a, b in zip(pos, pos[1:]):
        chunk = txt[a:b]
        if '{\n' not in chunk.split('\n',1)[0] + '\n' and not chunk.startswith('fn '):
            continue
        if '{\n' not in chunk: continue
        head_end = chunk.index('{\n')
        head = chunk[:head_end]
        body = chunk[head_end+2:]
        endi = body.find('\n}\n')
        if endi >= 0: body = body[:endi]
        if head.startswith('fn '):
            m = re.match(r'fn (.+?)\((.*)\) -> (.+?) $', head, re.S)
            if not m:
                continue
            name = m.group(1); argstr = m.group(2); ret = m.group(3)
            nargs = len(split_top(argstr)) if argstr.strip() else 0
        else:
            m = re.match(r'(?:const|static(?: mut)?) (.+?): (.+) = $', head, re.S)
            if not m: continue
            name = m.group(1); nargs = 0; ret = m.group(2)
        fns[name] = (nargs, ret, body)
    return fns

def parse_body(name, nargs, ret, body):
    locals_ = {}
    blocks = {}
    cur = None
    lines = body.split('\n')
    i = 0
    while i < len(lines):
        ln = lines[i].strip(); i += 1
        if not ln or ln.startswith(('debug ', 'scope ', '}', '//')): continue
        m = re.match(r'let (?:mut )?_(\d+): (.+);$', ln)
        if m:
            locals_[int(m.group(1))] = m.group(2); continue
        m = re.match(r'bb(\d+)(?: \(cleanup\))?: \{$', ln)
        if m:
            cur = []; blocks[int(m.group(1))] = cur; continue
        if cur is None: continue
        # join multi-line statements (rare)
        while not ln.endswith(';'):
            ln += ' ' + lines[i].strip(); i += 1
        cur.append(parse_stmt(ln[:-1]))
    return Fn(name, None, ret, locals_, blocks, nargs)

def _targets(s):
    d = {}
    for part in split_top(s):
        k, v = part.split(': ')
        m = re.match(r'bb(\d+)', v)
        d[k] = int(m.group(1)) if m else v
    return d

def parse_stmt(ln):
    if ln == 'return': return ('return',)
    if ln == 'unreachable': return ('unreachable',)
    if ln.startswith('resume') or ln.startswith('terminate'): return ('resume',)
    if ln == 'nop' or ln.startswith(('StorageLive', 'StorageDead', 'FakeRead', 'PlaceMention', 'Retag', 'AscribeUserType', 'Coverage', 'ConstEvalCounter')):
        return ('nop',)
    m = re.match(r'goto -> bb(\d+)$', ln)
    if m: return ('goto', int(m.group(1)))
    m = re.match(r'switchInt\((.*)\) -> \[(.*)\]$', ln)
    if m:
        tg = []
        other = None
        for part in split_top(m.group(2)):
            k, v = part.split(': ')
            b = int(v[2:])
            if k == 'otherwise': other = b
            else: tg.append((int(k), b))
        return ('switch', parse_operand(m.group(1)), tg, other)
    m = re.match(r'drop\((.*)\) -> \[return: bb(\d+)', ln)
    if m: return ('goto', int(m.group(2)))
    m = re.match(r'assert\((!?)(.*?), "(.*)\) -> \[success: bb(\d+)', ln)
    if m:
        return ('assert', m.group(1) == '!', parse_operand(m.group(2)), m.group(3), int(m.group(4)))
    # call with destination
    m = re.match(r'(.+?) = (.+)\((.*)\) -> (?:\[return: bb(\d+), unwind[^\]]*\]|unwind .*)$', ln)
    if m and ' -> ' in ln:
        dest = parse_place(m.group(1))
        args = [parse_operand(a) for a in split_top(m.group(3))] if m.group(3).strip() else []
        return ('call', dest, m.group(2), args, int(m.group(4)) if m.group(4) else None)
    m = re.match(r'(.+?) = (.+)$', ln)
    if m and ' -> ' not in ln:
        return ('assign', parse_place(m.group(1)), parse_rvalue(m.group(2)))
    # diverging call
    m = re.match(r'(.+?) = (.+)\((.*)\) -> (.*)$', ln)
    if m:
        dest = parse_place(m.group(1))
        args = [parse_operand(a) for a in split_top(m.group(3))] if m.group(3).strip() else []
        return ('call', dest, m.group(2), args, None)
    raise ValueError('stmt: ' + ln)

def load(path):
    txt = open(path).read()
    raw = parse_fn_bodies(txt)
    return raw
