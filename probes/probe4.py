import sys, time, z3, subprocess, re
sys.path.insert(0,'/tmp/probe/mirsym')
import mir, interp
raw = mir.load('/tmp/probe/cicada.mir')
interp.CRATE_FNS |= {'is_arithmetic','re_contains'}
ALPHA = "|&;<>()$`\\\"' #*a=1+"
n=int(sys.argv[1]); prefix=sys.argv[2] if len(sys.argv)>2 else "ab "
ctx = interp.Ctx(raw); it = interp.Interp(ctx)
chars = [z3.BitVec('c%d' % i, 32) for i in range(n)]
for c in chars: ctx.solver.add(z3.Or(*[c == ord(a) for a in ALPHA]))
s = tuple(ord(c) for c in prefix) + tuple(chars)
cases=[]
def on_leaf(rv):
    assert ctx.solver.check()==z3.sat
    m=ctx.solver.model()
    val=lambda x: x if isinstance(x,int) else m.eval(x, model_completion=True).as_long()
    inp=''.join(chr(val(c)) for c in s)
    toks=[(''.join(chr(val(c)) for c in t[1][0]), ''.join(chr(val(c)) for c in t[1][1])) for t in rv[2][0]]
    cases.append((inp,toks,rv[2][1]))
it.on_leaf=on_leaf
t=time.time()
it.run(interp.State([interp.Frame(ctx.fn('parser_line::parse_line'), {1: s})]))
print('symbolic: paths',ctx.paths,'queries',ctx.nq,'time %.1f'%(time.time()-t))
p=subprocess.run(['/tmp/probe/tgt/release/refbin'], input='\n'.join(i.encode().hex() for i,_,_ in cases)+'\n', capture_output=True, text=True)
real=p.stdout.rstrip('\n').split('\n')
bad=0
def rq(s): return '"' + s.replace('\\','\\\\').replace('"','\\"') + '"'
for (inp,toks,comp),r in zip(cases,real):
    exp='[' + ', '.join('(%s, %s)'%(rq(a),rq(b)) for a,b in toks) + ']|' + ('true' if comp is True else 'false' if comp is False else str(comp))
    if exp!=r:
        bad+=1
        if bad<8: print('MISMATCH',repr(inp),'\n  sym :',exp,'\n  real:',r)
print('leaves',len(cases),'mismatches',bad)
