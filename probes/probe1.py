import sys, time, z3
sys.path.insert(0,'/tmp/probe/mirsym')
import mir, interp
raw = mir.load('/tmp/probe/cicada.mir')
ALPHA = "|&;<>()$`\\\"' #*a"
def run(n, prefix="", suffix=""):
    ctx = interp.Ctx(raw)
    it = interp.Interp(ctx)
    chars = [z3.BitVec('c%d' % i, 32) for i in range(n)]
    for c in chars:
        ctx.solver.add(z3.Or(*[c == ord(a) for a in ALPHA]))
    s = tuple(ord(c) for c in prefix) + tuple(chars) + tuple(ord(c) for c in suffix)
    f = ctx.fn('line_to_cmds')
    leaves = []
    def on_leaf(rv):
        leaves.append(rv)
    it.on_leaf = on_leaf
    st = interp.State([interp.Frame(f, {1: s})])
    t = time.time()
    it.run(st)
    dt = time.time() - t
    print("n=%d prefix=%r paths=%d steps=%d queries=%d solver=%.2fs total=%.2fs" % (n, prefix, ctx.paths, ctx.steps, ctx.nq, ctx.tq, dt))
    return leaves
for n in (1,2,3,4):
    lv = run(n, "echo ")
print(lv[:3])
