import sys, time, z3
sys.path.insert(0,'/tmp/probe/mirsym')
import mir, interp
raw = mir.load('/tmp/probe/cicada.mir')
interp.CRATE_FNS |= {'is_arithmetic','re_contains'}
ALPHA = "|&;<>()$`\\\"' #*a=1+"
def run(n, prefix="", suffix="", fn='parser_line::parse_line'):
    ctx = interp.Ctx(raw); it = interp.Interp(ctx)
    chars = [z3.BitVec('c%d' % i, 32) for i in range(n)]
    for c in chars: ctx.solver.add(z3.Or(*[c == ord(a) for a in ALPHA]))
    s = tuple(ord(c) for c in prefix) + tuple(chars) + tuple(ord(c) for c in suffix)
    leaves = []; panics = []
    it.on_leaf = lambda rv: leaves.append(rv)
    st = interp.State([interp.Frame(ctx.fn(fn), {1: s})])
    t = time.time()
    try:
        it.run(st)
    except interp.Panic as e:
        print('PANIC', e)
    dt = time.time() - t
    print("n=%d prefix=%r paths=%d steps=%d queries=%d solver=%.2fs total=%.2fs" % (n, prefix, ctx.paths, ctx.steps, ctx.nq, ctx.tq, dt))
    return leaves
for n in (1,2,3,4):
    lv = run(n, "echo ")
print(lv[:2])
