"""Throwaway probe: Rust-regex subset -> NFA; symbolic is_match over concrete-shape char tuples."""
import z3

class RxErr(Exception): pass

# AST: ('lit', cp) ('class', neg, [(lo,hi)...]) ('any',) ('cat', [..]) ('alt', [..]) ('star', node, lazy, min, max) ('group', idx|None, name, node) ('bol',) ('eol',)
ESC_CLASS = {'d': [(48, 57)], 'w': [(48, 57), (65, 90), (95, 95), (97, 122)], 's': [(9, 13), (32, 32)]}

class P:
    def __init__(self, s): self.s = s; self.i = 0; self.ngroups = 0; self.names = {}
    def peek(self): return self.s[self.i] if self.i < len(self.s) else None
    def eat(self): c = self.s[self.i]; self.i += 1; return c
    def parse(self):
        n = self.alt()
        if self.i != len(self.s): raise RxErr('trailing ' + self.s[self.i:])
        return n
    def alt(self):
        alts = [self.cat()]
        while self.peek() == '|':
            self.eat(); alts.append(self.cat())
        return alts[0] if len(alts) == 1 else ('alt', alts)
    def cat(self):
        items = []
        while self.peek() is not None and self.peek() not in '|)':
            items.append(self.rep())
        return ('cat', items)
    def rep(self):
        a = self.atom()
        while self.peek() is not None and self.peek() in '*+?{':
            c = self.peek()
            if c == '{':
                j = self.s.find('}', self.i)
                body = self.s[self.i + 1:j]
                if j < 0 or not body or not all(ch.isdigit() or ch == ',' for ch in body):
                    break
                self.i = j + 1
                if ',' in body:
                    lo, hi = body.split(','); lo = int(lo or 0); hi = int(hi) if hi else None
                else: lo = hi = int(body)
            else:
                self.eat()
                lo, hi = {'*': (0, None), '+': (1, None), '?': (0, 1)}[c]
            lazy = False
            if self.peek() == '?': self.eat(); lazy = True
            a = ('rep', a, lo, hi, lazy)
        return a
    def atom(self):
        c = self.eat()
        if c == '(':
            idx = None; name = None
            if self.s.startswith('?:', self.i): self.i += 2
            elif self.s.startswith('?P<', self.i) or self.s.startswith('?<', self.i):
                j = self.s.index('>', self.i); name = self.s[self.s.index('<', self.i) + 1:j]; self.i = j + 1
                self.ngroups += 1; idx = self.ngroups; self.names[name] = idx
            else:
                self.ngroups += 1; idx = self.ngroups
            n = self.alt()
            if self.eat() != ')': raise RxErr('paren')
            return ('group', idx, name, n)
        if c == '[': return self.cls()
        if c == '.': return ('class', True, [(10, 10)])
        if c == '^': return ('bol',)
        if c == '$': return ('eol',)
        if c == '\\':
            e = self.eat()
            if e in ESC_CLASS: return ('class', False, ESC_CLASS[e])
            if e.upper() in ('D', 'W', 'S') and e.isupper(): return ('class', True, ESC_CLASS[e.lower()])
            if e == 'n': return ('lit', 10)
            if e == 't': return ('lit', 9)
            if e == 'r': return ('lit', 13)
            if e.isalnum(): raise RxErr('escape \\' + e)
            return ('lit', ord(e))
        return ('lit', ord(c))
    def cls(self):
        neg = False; ranges = []
        if self.peek() == '^': self.eat(); neg = True
        first = True
        while True:
            c = self.eat()
            if c == ']' and not first: break
            first = False
            if c == '\\':
                e = self.eat()
                if e in ESC_CLASS: ranges += ESC_CLASS[e]; continue
                lo = {'n': 10, 't': 9, 'r': 13}.get(e, ord(e))
            else: lo = ord(c)
            if self.peek() == '-' and self.s[self.i + 1] != ']':
                self.eat(); h = self.eat()
                if h == '\\': h = self.eat()
                ranges.append((lo, ord(h)))
            else: ranges.append((lo, lo))
        return ('class', neg, ranges)

def parse(p):
    ps = P(p); return ps.parse(), ps.ngroups, ps.names

def in_class(c, neg, ranges):
    if not isinstance(c, z3.ExprRef):
        r = any(lo <= c <= hi for lo, hi in ranges)
        return (not r) if neg else r
    parts = [(c == lo) if lo == hi else z3.And(z3.UGE(c, lo), z3.ULE(c, hi)) for lo, hi in ranges]
    e = z3.Or(*parts) if len(parts) > 1 else parts[0]
    return z3.Not(e) if neg else e

def b_and(a, b):
    if a is True: return b
    if b is True: return a
    if a is False or b is False: return False
    return z3.And(a, b)

def b_or(a, b):
    if a is False: return b
    if b is False: return a
    if a is True or b is True: return True
    return z3.Or(a, b)

def ends(node, text, i, memo):
    """dict end_pos -> cond that node matches text[i:end] (priority ignored: for is_match)."""
    key = (id(node), i)
    if key in memo: return memo[key]
    k = node[0]; n = len(text); out = {}
    if k == 'lit':
        if i < n:
            c = text[i]
            e = (c == node[1]) if not isinstance(c, z3.ExprRef) else (c == node[1])
            if e is not False: out[i + 1] = e
    elif k == 'class':
        if i < n:
            e = in_class(text[i], node[1], node[2])
            if e is not False: out[i + 1] = e
    elif k == 'bol':
        if i == 0: out[i] = True
    elif k == 'eol':
        if i == n: out[i] = True
    elif k == 'group':
        out = ends(node[3], text, i, memo)
    elif k == 'cat':
        cur = {i: True}
        for sub in node[1]:
            nxt = {}
            for p, c in cur.items():
                for q, d in ends(sub, text, p, memo).items():
                    nxt[q] = b_or(nxt.get(q, False), b_and(c, d))
            cur = nxt
            if not cur: break
        out = cur
    elif k == 'alt':
        for sub in node[1]:
            for q, d in ends(sub, text, i, memo).items():
                out[q] = b_or(out.get(q, False), d)
    elif k == 'rep':
        _, sub, lo, hi, lazy = node
        cur = {i: True}; cnt = 0
        if lo == 0: out[i] = True
        while cur and (hi is None or cnt < hi):
            nxt = {}
            for p, c in cur.items():
                for q, d in ends(sub, text, p, memo).items():
                    if q == p: continue      # empty iteration adds nothing
                    nxt[q] = b_or(nxt.get(q, False), b_and(c, d))
            cnt += 1; cur = nxt
            if cnt >= lo:
                for q, d in cur.items(): out[q] = b_or(out.get(q, False), d)
    else:
        raise RxErr(k)
    memo[key] = out
    return out

_cache = {}
def is_match(pattern, text):
    if pattern not in _cache: _cache[pattern] = parse(pattern)
    ast, _, _ = _cache[pattern]
    memo = {}; res = False
    for i in range(len(text) + 1):
        for q, d in ends(ast, text, i, memo).items():
            res = b_or(res, d)
            if res is True: return True
    return res
