import sys, time, z3, subprocess
sys.path.insert(0,'/tmp/probe/mirsym')
import mir, interp
raw = mir.load('/tmp/probe/cicada.mir')
ALPHA = "|&;<>()$`\\\"' #*a"
n=3
ctx = interp.Ctx(raw); it = interp.Interp(ctx)
chars = [z3.BitVec('c%d' % i, 32) for i in range(n)]
for c in chars: ctx.solver.add(z3.Or(*[c == ord(a) for a in ALPHA]))
prefix="ab "
s = tuple(ord(c) for c in prefix) + tuple(chars)
cases=[]
def on_leaf(rv):
    assert ctx.solver.check()==z3.sat
    m=ctx.solver.model()
    val=lambda x: x if isinstance(x,int) else m.eval(x, model_completion=True).as_long()
    inp=''.join(chr(val(c)) for c in s)
    out=[''.join(chr(val(c)) for c in tok) for tok in rv]
    cases.append((inp,out))
it.on_leaf=on_leaf
it.run(interp.State([interp.Frame(ctx.fn('line_to_cmds'), {1: s})]))
p=subprocess.run(['/tmp/probe/mini/target/release/ref'], input='\n'.join(i.encode().hex() for i,_ in cases)+'\n', capture_output=True, text=True)
real=p.stdout.strip().split('\n')
bad=0
for (inp,out),r in zip(cases,real):
    if repr(out).replace("'",'"') != r and str(out)!=r:
        # compare via python eval of rust debug (approx)
        try:
            rr=eval(r)
        except Exception: rr=r
        if rr!=out:
            bad+=1
            if bad<10: print('MISMATCH',repr(inp),out,r)
print('leaves',len(cases),'mismatches',bad)
