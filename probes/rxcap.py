"""Throwaway probe: leftmost-first capture semantics by priority-ordered enumeration.
match(node, text, i, caps, k) is a generator in backtracking priority order; k = continuation."""
import rx, z3

def m(node, text, i, caps, cond, k):
    t = node[0]; n = len(text)
    if t == 'lit' or t == 'class':
        if i < n:
            c = text[i]
            e = (c == node[1]) if t == 'lit' else rx.in_class(c, node[1], node[2])
            if e is not False:
                yield from k(i + 1, caps, rx.b_and(cond, e))
    elif t == 'bol':
        if i == 0: yield from k(i, caps, cond)
    elif t == 'eol':
        if i == n: yield from k(i, caps, cond)
    elif t == 'group':
        idx = node[1]
        def k2(j, caps2, cond2):
            if idx is not None:
                caps2 = dict(caps2); caps2[idx] = (i, j)
            yield from k(j, caps2, cond2)
        yield from m(node[3], text, i, caps, cond, k2)
    elif t == 'cat':
        items = node[1]
        def step(idx):
            def kk(j, caps2, cond2):
                if idx == len(items): yield from k(j, caps2, cond2)
                else: yield from m(items[idx], text, j, caps2, cond2, step(idx + 1))
            return kk
        yield from step(0)(i, caps, cond)
    elif t == 'alt':
        for sub in node[1]:
            yield from m(sub, text, i, caps, cond, k)
    elif t == 'rep':
        _, sub, lo, hi, lazy = node
        def loop(cnt):
            def kk(j, caps2, cond2, first=False):
                can_more = hi is None or cnt < hi
                def more():
                    if can_more:
                        def k3(j2, caps3, cond3):
                            if j2 == j and cnt >= lo: return   # empty iteration: stop
                            yield from loop(cnt + 1)(j2, caps3, cond3)
                        yield from m(sub, text, j, caps2, cond2, k3)
                def stop():
                    if cnt >= lo: yield from k(j, caps2, cond2)
                if lazy:
                    yield from stop(); yield from more()
                else:
                    yield from more(); yield from stop()
            return kk
        yield from loop(0)(i, caps, cond)
    else:
        raise rx.RxErr(t)

def candidates(pattern, text):
    """yield (start, end, caps, cond) in leftmost-first priority order."""
    ast, ng, names = rx.parse(pattern)
    for s in range(len(text) + 1):
        def fin(j, caps, cond):
            yield (s, j, caps, cond)
        yield from m(ast, text, s, {}, True, fin)

def first_concrete(pattern, text):
    for s, e, caps, cond in candidates(pattern, text):
        if cond is True: return s, e, caps
    return None
