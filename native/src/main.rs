//! Native replay tool: drives the natively compiled cicada (built with --cfg cicada_verif) on concrete
//! inputs produced by the symbolic executor and prints results as JSON, one line per request.
//! Request line: name TAB hexarg TAB hexarg ...   (hex = UTF-8 bytes of the argument)
use cicada::verif_hooks as vh;
use std::io::{self, BufRead, Write};
use std::panic;

fn unhex(s: &str) -> String {
    let b: Vec<u8> = (0..s.len() / 2).map(|i| u8::from_str_radix(&s[2 * i..2 * i + 2], 16).unwrap()).collect();
    String::from_utf8(b).unwrap()
}
fn js(s: &str) -> String {
    let mut o = String::from("\"");
    for c in s.chars() {
        match c {
            '"' => o.push_str("\\\""),
            '\\' => o.push_str("\\\\"),
            '\n' => o.push_str("\\n"),
            '\r' => o.push_str("\\r"),
            '\t' => o.push_str("\\t"),
            c if (c as u32) < 0x20 => o.push_str(&format!("\\u{:04x}", c as u32)),
            c => o.push(c),
        }
    }
    o.push('"');
    o
}
fn jlist<T>(v: &[T], f: impl Fn(&T) -> String) -> String {
    let parts: Vec<String> = v.iter().map(f).collect();
    format!("[{}]", parts.join(","))
}
fn jtokens(t: &vh::Tokens) -> String {
    jlist(t, |x| format!("[{},{}]", js(&x.0), js(&x.1)))
}
fn tokens_from(args: &[String]) -> vh::Tokens {
    let mut t = Vec::new();
    let mut i = 0;
    while i + 1 < args.len() {
        t.push((args[i].clone(), args[i + 1].clone()));
        i += 2;
    }
    t
}
/// leading args of the form "env:K=V", "unsetenv:K", "shvar:K=V", "alias:K=V", "status:N" configure the shell
fn setup(args: &[String]) -> (cicada::verif_hooks::Sh, usize) {
    let mut sh = vh::new_shell();
    let mut n = 0;
    for a in args {
        if let Some(r) = a.strip_prefix("env:") {
            let (k, v) = r.split_once('=').unwrap();
            std::env::set_var(k, v);
        } else if let Some(r) = a.strip_prefix("unsetenv:") {
            std::env::remove_var(r);
        } else if let Some(r) = a.strip_prefix("shvar:") {
            let (k, v) = r.split_once('=').unwrap();
            sh.envs.insert(k.to_string(), v.to_string());
        } else if let Some(r) = a.strip_prefix("alias:") {
            let (k, v) = r.split_once('=').unwrap();
            sh.aliases.insert(k.to_string(), v.to_string());
        } else if let Some(r) = a.strip_prefix("status:") {
            sh.previous_status = r.parse().unwrap();
        } else if let Some(r) = a.strip_prefix("prevcmd:") {
            sh.previous_cmd = r.to_string();
        } else {
            break;
        }
        n += 1;
    }
    (sh, n)
}
fn handle(name: &str, a: &[String]) -> String {
    match name {
        "escaped_word_start" => format!("{}", vh::escaped_word_start(&a[0])),
        "highlight" => jlist(&vh::highlight(&a[0]), |x| format!("[{},{},{}]", x.0, x.1, x.2)),
        "complete_path" => jlist(&vh::complete_path(&a[0], a[1] == "1"), |x| js(x)),
        "jobs" => {
            // steps: w:kind:pid:val | L:gid:pid:bg | F:gid:pid,pid | P | S
            let mut sh = vh::new_shell();
            let mut out: Vec<String> = Vec::new();
            for st in a {
                let f: Vec<&str> = st.split(':').collect();
                match f[0] {
                    "w" => vh::push_wait_result(f[1].parse().unwrap(), f[2].parse().unwrap(), f[3].parse().unwrap()),
                    "L" => vh::insert_job(&mut sh, f[1].parse().unwrap(), f[2].parse().unwrap(), "cmd", f[3] == "1"),
                    "F" => {
                        let pids: Vec<i32> = f[2].split(',').map(|x| x.parse().unwrap()).collect();
                        let (g, st_) = vh::wait_fg_job(&mut sh, f[1].parse().unwrap(), &pids);
                        out.push(format!("{{\"wait\":[{},{}],\"left\":{}}}", g, st_, vh::pending_wait_results()));
                    }
                    "P" => vh::try_wait_bg_jobs(&mut sh),
                    "S" => {
                        let t = vh::job_table(&sh);
                        out.push(format!("{{\"left\":{},\"jobs\":{}}}", vh::pending_wait_results(), jlist(&t, |j| format!("[{},{},{},{},{},{}]", j.0, j.1, jlist(&j.2, |x| x.to_string()), jlist(&j.3, |x| x.to_string()), js(&j.4), j.5))));
                    }
                    _ => {}
                }
            }
            format!("[{}]", out.join(","))
        }
        "cd" => match std::env::set_current_dir(&a[0]) { Ok(_) => "true".to_string(), Err(_) => "false".to_string() },
        "line_to_cmds" => jlist(&vh::line_to_cmds(&a[0]), |x| js(x)),
        "parse_line" => {
            let (t, c) = vh::parse_line(&a[0]);
            format!("[{},{}]", jtokens(&t), c)
        }
        "tokens_to_line" => js(&vh::tokens_to_line(&tokens_from(a))),
        "tokens_to_redirections" => match vh::tokens_to_redirections(&tokens_from(a)) {
            Ok((t, r)) => format!("{{\"Ok\":[{},{}]}}", jtokens(&t), jlist(&r, |x| format!("[{},{},{}]", js(&x.0), js(&x.1), js(&x.2)))),
            Err(e) => format!("{{\"Err\":{}}}", js(&e)),
        },
        "is_arithmetic" => format!("{}", vh::is_arithmetic(&a[0])),
        "wrap_sep_string" => js(&vh::wrap_sep_string(&a[0], &a[1])),
        "escape_path" => js(&vh::escape_path(&a[0])),
        "expand_args" => js(&vh::expand_args(&a[0], &a[1..].to_vec())),
        "trim_multiline_prompts" => js(&vh::trim_multiline_prompts(&a[0])),
        "run_calculator" => match vh::run_calculator(&a[0]) {
            Ok(s) => format!("{{\"Ok\":{}}}", js(&s)),
            Err(e) => format!("{{\"Err\":{}}}", js(&e)),
        },
        "need_expand_brace" => format!("{}", vh::need_expand_brace(&a[0])),
        "env_in_token" => format!("{}", vh::env_in_token(&a[0])),
        "from_line" => {
            let (mut sh, n) = setup(a);
            match vh::from_line(&a[n], &mut sh) {
                Ok((cmds, envs, bg)) => format!(
                    "{{\"Ok\":[{},{},{}]}}",
                    jlist(&cmds, |c| format!(
                        "[{},{},{}]",
                        jtokens(&c.0),
                        jlist(&c.1, |x| format!("[{},{},{}]", js(&x.0), js(&x.1), js(&x.2))),
                        match &c.2 { Some(x) => format!("[{},{}]", js(&x.0), js(&x.1)), None => "null".to_string() }
                    )),
                    jlist(&envs, |x| format!("[{},{}]", js(&x.0), js(&x.1))),
                    bg
                ),
                Err(e) => format!("{{\"Err\":{}}}", js(&e)),
            }
        }
        "expand_one_env" => {
            let (sh, n) = setup(a);
            js(&vh::expand_one_env(&sh, &a[n]))
        }
        "expand_env" | "expand_brace" | "expand_brace_range" | "expand_alias" | "expand_home" | "do_expansion" | "do_command_substitution" | "expand_glob" => {
            let (mut sh, n) = setup(a);
            let mut t = tokens_from(&a[n..]);
            match name {
                "expand_env" => vh::expand_env(&sh, &mut t),
                "expand_brace" => vh::expand_brace(&mut t),
                "expand_brace_range" => vh::expand_brace_range(&mut t),
                "expand_alias" => vh::expand_alias(&sh, &mut t),
                "expand_home" => vh::expand_home(&mut t),
                "do_command_substitution" => vh::do_command_substitution(&mut sh, &mut t),
                "expand_glob" => vh::expand_glob(&mut t),
                _ => vh::do_expansion(&mut sh, &mut t),
            }
            jtokens(&t)
        }
        _ => format!("{{\"unknown\":{}}}", js(name)),
    }
}
fn main() {
    panic::set_hook(Box::new(|_| {}));
    let stdin = io::stdin();
    let stdout = io::stdout();
    for line in stdin.lock().lines() {
        let line = line.unwrap();
        let mut parts = line.split('\t');
        let name = parts.next().unwrap().to_string();
        let args: Vec<String> = parts.map(unhex).collect();
        let r = panic::catch_unwind(|| handle(&name, &args));
        let out = match r {
            Ok(s) => s,
            Err(e) => {
                let msg = if let Some(s) = e.downcast_ref::<String>() { s.clone() } else if let Some(s) = e.downcast_ref::<&str>() { s.to_string() } else { "?".to_string() };
                format!("{{\"panic\":{}}}", js(&msg))
            }
        };
        let mut o = stdout.lock();
        writeln!(o, "\n@@RESULT@@{}", out).unwrap();
        o.flush().unwrap();
    }
}
