#!/bin/sh
# offline setup: build the MIR-dump dependencies, the native replay tool and the cicada binary from /repo; self-test the engine
set -e
export CARGO_NET_OFFLINE=true
cd /verif
mkdir -p build evidence replays
python3-vt mirsym/runner.py --setup
