#!/bin/sh
# offline setup: MIR-dump dependencies, native replay tool, cicada binary from /repo; engine self-test
set -e
export CARGO_NET_OFFLINE=true
D=$(cd "$(dirname "$0")" && pwd)
cd "$D"
mkdir -p build evidence replays
python3-vt mirsym/runner.py --setup
