"""work-list tool: external callee keys reachable from given root functions, with model coverage"""
import sys, re, collections
sys.path.insert(0, '/verif/mirsym')
import mir, program, engine
def reach(prog, roots):
    seen = set(); todo = []
    for r in roots:
        f = prog.lookup(r)
        if f is None: print('no root', r); continue
        todo.append(f)
    ext = collections.Counter()
    while todo:
        f = todo.pop()
        if f.name in seen: continue
        seen.add(f.name)
        for blk in f.blocks.values():
            for st in blk:
                txts = []
                if st[0] == 'call':
                    kind, obj, key = prog.resolve_call(f, st[2]) if st[5] is None else ('ptr', None, '')
                    if kind == 'fn': todo.append(obj)
                    elif kind != 'ptr': ext[(key, kind)] += 1
                    for a in st[3]:
                        if a[0] in ('const', 'fn'): txts.append(a[1])
                elif st[0] == 'assign':
                    rv = st[2]
                    if rv[0] == 'closure': txts.append('{closure@%s}' % rv[1])
                    if rv[0] == 'use' and rv[1][0] in ('const', 'fn'): txts.append(rv[1][1])
                    if rv[0] == 'cast' and rv[1][0] == 'fn': txts.append(rv[1][1])
                for t in txts:
                    for m in re.finditer(r'\{closure@([^}]+)\}', t):
                        cf = prog.closure_fn(m.group(1))
                        if cf: todo.append(cf)
                    if not t.startswith(('"', "'", 'b"')) and '::' in t and 'closure@' not in t:
                        kind, obj, key = prog.resolve_call(f, t.replace('ZeroSized: ', ''))
                        if kind == 'fn': todo.append(obj)
    return seen, ext
if __name__ == '__main__':
    mod = mir.load(sys.argv[1])
    prog = program.Program(mod)
    try:
        import models; models.install(prog)
    except Exception as e:
        print('models not installed:', e)
    seen, ext = reach(prog, sys.argv[2:])
    print('crate fns reached:', len(seen))
    for (k, kind), c in sorted(ext.items(), key=lambda x: (x[0][1], -x[1])):
        print('%-6s %4d  %s' % (kind, c, k))
