#!/bin/bash
# kill running check processes (pattern written so that it does not match this command line itself)
pkill -f 'runner[.]py' ; pkill -f 'vnativ[e]' ; true
