#!/bin/bash
# confirm seeded changes: each must apply, compile, pass the test suite, and its demo must fail with / pass without the change
# usage: confirm_seed.sh <seed-id>...   (scratch worktree under /tmp, removed afterwards)
set -u
WT=/tmp/wt-confirm-$$
git -C /repo worktree add -q $WT HEAD || exit 1
export CARGO_NET_OFFLINE=true CARGO_TARGET_DIR=$WT/target
cd $WT && cargo build --offline -q 2>/dev/null; cp $WT/target/debug/cicada /tmp/cicada-base-$$
for id in "$@"; do
  S=/verif/seeded/$id
  [ -f $S/demo.sh ] || { echo "$id: no demo.sh"; continue; }
  bash $S/demo.sh /tmp/cicada-base-$$ >/dev/null 2>&1; base=$?
  git -C $WT apply $S/patch.diff || { echo "$id: patch does not apply"; continue; }
  tests=$(cd $WT && cargo test --offline 2>&1 | grep -E "^test result" | tr '\n' ' ')
  (cd $WT && cargo build --offline -q 2>/dev/null)
  bash $S/demo.sh $WT/target/debug/cicada >/dev/null 2>&1; mut=$?
  echo "$id: demo baseline=$base (want 0) with-change=$mut (want 1) | $tests"
  git -C $WT checkout -- . 
done
cd /; git -C /repo worktree remove --force $WT; rm -f /tmp/cicada-base-$$
