#!/bin/bash
# runs every registered quick (or thorough) check in sequence; one summary line per property
tier=${1:-quick}; shift
cd /verif
for p in ${@:-C01 C02 C03 C04 C05 C06 C07 C08 C09 C10 C11 C12 C13 C14 C15 C16 C17 C18 C19 C20}; do
  s=$(date +%s); ./check $p --tier $tier > /verif/scratch/run-$p-$tier.log 2>&1; rc=$?; e=$(date +%s)
  echo "$p exit=$rc $((e-s))s $(grep -c '^VIOLATION' /verif/scratch/run-$p-$tier.log) violations $(grep -c '^KNOWN-FINDING' /verif/scratch/run-$p-$tier.log) known | $(tail -1 /verif/scratch/run-$p-$tier.log | cut -c1-150)"
done
