"""regenerates /verif/MANIFEST.json from the table below (development aid)"""
import json
CHECKS = {
 'C01': dict(text='Bounded symbolic execution (z3) of the MIR of line_to_cmds + CommandLine::from_line (tokenizer, all seven expansion passes, pipe split, redirection and background detection) for every argument list within the bound (quick: <=2 args / <=3 symbolic characters over all Unicode scalars; thorough: <=3 / <=4), three quoting styles, five positions; oracle argv == written arguments. Every violating input class is minimised and replayed on the real binary.',
             note='Trusted: MIR parser, Python models of String/Vec/HashMap/format!/regex (validated on every stub-free leaf against the natively compiled from_line), stubs for env::var / glob / command substitution; execve and kernel outside. Known findings (escape handling of the tokenizer) listed in known_findings.json.',
             design='6/C01'),
}
CHECKS['C03'] = dict(text='Bounded symbolic execution (z3) of the MIR of execute::run_command_line + line_to_cmds for every line of 1..4 (thorough 6) pipelines and every operator sequence over {;, &&, ||} with symbolic exit statuses (0..255); oracle: reference short-circuit semantics, $? (previous_status) seen by every executed pipeline, final status. Every leaf is additionally run through the real binary (`cicada -c`) and its trace and exit code compared.',
             note='run_proc is stubbed (arbitrary status); operator sequences are enumerated, statuses are solver variables; main.rs exit wiring only via the binary replay.', design='6/C03')
CHECKS['C05'] = dict(text='Bounded symbolic execution (z3) of the MIR of the whole path a line takes up to the first process creation (run_command_line, line_to_cmds, run_proc, from_line with every expansion pass, run_pipeline planning incl. try_run_func / calculator classification) and of the pre-passes (trim_multiline_prompts, extend_bangbang, scripting::expand_args, is_arithmetic), the highlighter and escaped_word_start, for every line of <= n fully symbolic characters (quick: 3 for the command path and highlighter, 4 for escaped_word_start; thorough: +1). Every panic site reachable under the path condition is reported with the crashing line; loops whose state repeats are reported as hangs; both only after the native binary / hook reproduces them.',
             note='Paths end at pipe()/fork(), builtin bodies, the pest calculator parser and function bodies (other properties). Stubs: env::var, glob (pattern-respecting adversarial answer), command substitution output. Dev profile. A deterministic 1/8 share of the ok-leaves is validated against the native binary.', design='6/C05')
CHECKS['C10'] = dict(text='Bounded symbolic execution (z3) of the MIR of shell::expand_env / env_in_token / expand_one_env for every token of <= 3 (thorough 4) segments over {literal, $A, ${A}, $AB, $B, ${B}, $?, $$, ${?}} with symbolic literal characters, symbolic variable values (<= 1, thorough 2 characters, arbitrary scalars) and quote tag; oracle: one left-to-right substitution pass, inserted text not rescanned; hangs via repeated-state detection.',
             note='expand_env is driven directly; literal characters exclude quotes/backquote/backslash/parentheses/digits (other word kinds). Known finding: values containing `$` are rescanned (fix-point loop). Every stub-free ok-leaf is validated against the native expand_env.', design='6/C10')
CHECKS['C11'] = dict(text='Bounded symbolic execution (z3) of the MIR of do_command_substitution (both spellings, embedded and whole-token, two substitutions, unparsable inner command) with the real from_line for the inner command and a capture stub whose stdout is symbolic (<= 3, thorough 4 arbitrary characters incl. newline) plus <= 2 symbolic characters on each side; oracle: head + output-without-trailing-newlines + tail, exactly one invocation per substitution, termination.',
             note='run_pipeline(capture) is stubbed; do_command_substitution is driven directly on one token. Every ok-leaf is validated by running the native function with a helper program that prints the model\'s output bytes. Known finding: two $(...) in one word.', design='6/C11')
CHECKS['C12'] = dict(text='Bounded symbolic execution (z3) of the MIR of expand_brace (brace words of <= 5, thorough 6 fully symbolic characters against a reference brace expander; malformed words: crash/hang freedom only), expand_brace_range (symbolic digits and signs, optional step, symbolic text around the braces, i32 extremes as directed cases; arithmetic-sequence reference), expand_home (symbolic HOME) and expand_glob (glob stub returning up to 2/3 symbolic names incl. hidden and blank-containing ones), each on a token list with neighbours so that word order is part of the oracle.',
             note='Passes are driven directly; the glob matcher itself is outside (stub). Every brace/range/tilde leaf is validated against the native function.', design='6/C12')
CHECKS['C13'] = dict(text='Bounded symbolic execution (z3) of the MIR of CommandLine::from_line end to end with the three expansion channels delivering a symbolic text of 1..3 (thorough 4) characters: value of $X / ${X} (env stub), stdout of $(..) / backquotes (capture stub), a file name matched by `*` (glob stub); unquoted and double-quoted, sole/first/last argument; oracle: one command, no background, no redirection, neighbours unchanged, the text is exactly one argument.',
             note='Produced characters exclude those that legitimately trigger later expansions (* ? [ ] { } ~ $ ` \\ quotes). Every leaf is validated / every violation replayed with the native from_line (helper program prints the output bytes, scratch directory holds the file). Known finding (5 effect kinds): unquoted results are re-read as syntax.', design='6/C13')
CHECKS['C16'] = dict(text='Bounded symbolic execution (z3) of the MIR of scripting::expand_args (parse_line, expand_args_in_tokens, tokens_to_line, wrap_sep_string) followed by line_to_cmds + from_line, on C01\'s line shapes (three quoting styles, <= 2 arguments, <= 2 / thorough 3 symbolic characters, four positions): the plan of the re-rendered line must equal the plan of the line itself; trim_multiline_prompts must be the identity. Violations are minimised natively and replayed through the real binary as `cicada -c LINE` versus a script file containing LINE.',
             note='Stubs as C01, answering identically in both runs. Known finding: the unquoted-escaped style is not re-rendered faithfully (one key for the whole style).', design='6/C16')
NA = {}
ALL = ['C%02d' % i for i in range(1, 21)]
m = dict(version=1, setup_cmd='./setup.sh',
         hooks=dict(guard='cicada_verif', enable='RUSTFLAGS="--cfg cicada_verif" cargo build (CARGO_TARGET_DIR=/verif/build/native)',
                    baseline_off_cmd='cd /repo && cargo test --workspace --no-fail-fast --offline',
                    source_commits=[], add_only=True),
         engines=[dict(name='mirsym', path='/verif/mirsym', serves_properties=sorted(CHECKS),
                       kind_free_text='symbolic executor for rustc MIR (regenerated from /repo on every run) with z3; native replay tool for translation validation')],
         checks=[], not_applicable=[],
         notes='exit 0 held / 1 VIOLATION (replayed on the real build) / 2 inconclusive. See DESIGN.md.')
import subprocess
m['hooks']['source_commits'] = subprocess.run("git -C /repo log --format=%H --grep='^verif hooks'", shell=True, stdout=subprocess.PIPE).stdout.decode().split()
for pid in ALL:
    if pid in CHECKS:
        c = CHECKS[pid]
        m['checks'].append(dict(property_id=pid, quick_cmd='./check %s --tier quick' % pid, thorough_cmd='./check %s --tier thorough' % pid,
                                evidence_file='/verif/evidence/%s.json' % pid, replay_cmd_template='./check %s --replay {path}' % pid,
                                engine='mirsym', level_claimed=dict(category='model_checking', text=c['text'], design_ref=c['design']),
                                level_note=c['note'], technique='bounded symbolic execution of rustc MIR with z3 (SMT), counterexamples replayed natively'))
    else:
        m['not_applicable'].append(dict(property_id=pid, reason=NA.get(pid, 'harness not built yet in this round (solver-based check planned, see DESIGN.md section 6)')))
json.dump(m, open('/verif/MANIFEST.json', 'w'), indent=1)
print('checks', len(m['checks']), 'na', len(m['not_applicable']))
