"""regenerates /verif/MANIFEST.json from the table below (development aid)"""
import json
CHECKS = {
 'C01': dict(text='Bounded symbolic execution (z3) of the MIR of line_to_cmds + CommandLine::from_line (tokenizer, all seven expansion passes, pipe split, redirection and background detection) for every argument list within the bound (quick: <=2 args / <=3 symbolic characters over all Unicode scalars; thorough: <=3 / <=4), three quoting styles, five positions; oracle argv == written arguments. Every violating input class is minimised and replayed on the real binary.',
             note='Trusted: MIR parser, Python models of String/Vec/HashMap/format!/regex (validated on every stub-free leaf against the natively compiled from_line), stubs for env::var / glob / command substitution; execve and kernel outside. Known findings (escape handling of the tokenizer) listed in known_findings.json.',
             design='6/C01'),
}
CHECKS['C03'] = dict(text='Bounded symbolic execution (z3) of the MIR of execute::run_command_line + line_to_cmds for every line of 1..4 (thorough 6) pipelines and every operator sequence over {;, &&, ||} with symbolic exit statuses (0..255); oracle: reference short-circuit semantics, $? (previous_status) seen by every executed pipeline, final status. Every leaf is additionally run through the real binary (`cicada -c`) and its trace and exit code compared.',
             note='run_proc is stubbed (arbitrary status); operator sequences are enumerated, statuses are solver variables; main.rs exit wiring only via the binary replay.', design='6/C03')
NA = {}
ALL = ['C%02d' % i for i in range(1, 21)]
m = dict(version=1, setup_cmd='./setup.sh',
         hooks=dict(guard='cicada_verif', enable='RUSTFLAGS="--cfg cicada_verif" cargo build (CARGO_TARGET_DIR=/verif/build/native)',
                    baseline_off_cmd='cd /repo && cargo test --workspace --no-fail-fast --offline',
                    source_commits=[], add_only=True),
         engines=[dict(name='mirsym', path='/verif/mirsym', serves_properties=sorted(CHECKS),
                       kind_free_text='symbolic executor for rustc MIR (regenerated from /repo on every run) with z3; native replay tool for translation validation')],
         checks=[], not_applicable=[],
         notes='exit 0 held / 1 VIOLATION (replayed on the real build) / 2 inconclusive. See DESIGN.md.')
import subprocess
m['hooks']['source_commits'] = subprocess.run("git -C /repo log --format=%H --grep='^verif hooks'", shell=True, stdout=subprocess.PIPE).stdout.decode().split()
for pid in ALL:
    if pid in CHECKS:
        c = CHECKS[pid]
        m['checks'].append(dict(property_id=pid, quick_cmd='./check %s --tier quick' % pid, thorough_cmd='./check %s --tier thorough' % pid,
                                evidence_file='/verif/evidence/%s.json' % pid, replay_cmd_template='./check %s --replay {path}' % pid,
                                engine='mirsym', level_claimed=dict(category='model_checking', text=c['text'], design_ref=c['design']),
                                level_note=c['note'], technique='bounded symbolic execution of rustc MIR with z3 (SMT), counterexamples replayed natively'))
    else:
        m['not_applicable'].append(dict(property_id=pid, reason=NA.get(pid, 'harness not built yet in this round (solver-based check planned, see DESIGN.md section 6)')))
json.dump(m, open('/verif/MANIFEST.json', 'w'), indent=1)
print('checks', len(m['checks']), 'na', len(m['not_applicable']))
