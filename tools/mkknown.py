"""development aid (never run by a check): turn the replay files of a run into known_findings.json entries for review"""
import json, glob, sys
pid = sys.argv[1]
path = '/verif/known_findings.json'
try: db = json.load(open(path))
except Exception: db = {'findings': []}
have = {(f['property'], f['key']) for f in db['findings']}
for f in sorted(glob.glob('/verif/replays/%s-*.json' % pid)):
    d = json.load(open(f))
    if (pid, d['key']) in have: continue
    r = d['replay']
    db['findings'].append({'property': pid, 'key': d['key'], 'status': 'known',
                           'what': 'TODO', 'witness': r.get('witness'), 'expected': r.get('expected_argv') or r.get('expected'), 'observed': r.get('observed_argv') or r.get('observed')})
    have.add((pid, d['key']))
json.dump(db, open(path, 'w'), indent=1, ensure_ascii=False)
print(len(db['findings']))
