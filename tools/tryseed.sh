#!/bin/bash
# usage: tryseed.sh <seed-id> <property> [tier]  - apply seeded/<id>/patch.diff to /repo, run the check, undo
set -u
id=$1; p=$2; tier=${3:-quick}
git -C /repo apply /verif/seeded/$id/patch.diff || exit 3
cd /verif && ./check $p --tier $tier > /verif/scratch/try-$id.log 2>&1; rc=$?
git -C /repo checkout -- .
echo "$id: ./check $p --tier $tier -> exit $rc"; grep -E "^(VIOLATION|KNOWN-FINDING)" /verif/scratch/try-$id.log | cut -c1-200 | sort | uniq -c | head -12
exit 0
