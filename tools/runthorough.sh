#!/bin/bash
# thorough tier of the given properties in sequence (development aid; hours)
cd /verif
for p in "$@"; do
  s=$(date +%s); ./check $p --tier thorough > /verif/scratch/run-$p-thorough.log 2>&1; rc=$?; e=$(date +%s)
  echo "$p exit=$rc $((e-s))s $(grep -c '^VIOLATION' /verif/scratch/run-$p-thorough.log) violations $(grep -c '^KNOWN-FINDING' /verif/scratch/run-$p-thorough.log) known | $(tail -1 /verif/scratch/run-$p-thorough.log | cut -c1-160)"
  cp /verif/evidence/$p.json /verif/scratch/evidence-$p-thorough.json 2>/dev/null
done
